"""LAY-311 / LAY-310: ctypes reader layouts vs the C headers that write the memory."""
from __future__ import annotations

import ast
from typing import Any, Dict, List, Optional, Tuple

from ..ctx import Ctx
from ..model import AnalysisError, Mod, norm, walk_scope
from ..util import resolve_const

# stackscope's field names that legitimately differ from the header's
ALIASES = {("f_func", "f_funcobj"): "renamed in 3.12", ("yield_offset", "return_offset"): "renamed during 3.12 betas"}


def ctype_class(e: ast.AST) -> Tuple[str, int, int]:
    """ctypes type expression -> (size class, size, align) under LP64"""
    t = norm(e)
    if t.startswith("ctypes."):
        t = t[len("ctypes."):]
    if t in ("c_size_t", "c_ssize_t", "c_void_p", "py_object", "c_long", "c_ulong", "c_char_p") or t.startswith("POINTER("):
        return ("word", 8, 8)
    if t in ("c_int", "c_uint", "c_int32", "c_uint32"):
        return ("int", 4, 4)
    if t in ("c_ushort", "c_short", "c_uint16", "c_int16"):
        return ("u16", 2, 2)
    if t in ("c_byte", "c_ubyte", "c_char", "c_bool", "c_int8", "c_uint8"):
        return ("byte", 1, 1)
    raise AnalysisError(f"LAY: unknown ctypes type {t}")


def fold_fields(ctx: Ctx, mod: Mod, cls: ast.ClassDef, v: str, notes: List[str]) -> List[Tuple[str, ast.AST]]:
    """constant-fold the `_fields_` list built by the class body under version v"""
    fields: Optional[List[Tuple[str, ast.AST]]] = None
    env: Dict[str, Any] = {}

    def elts(e: ast.AST) -> List[Tuple[str, ast.AST]]:
        if not isinstance(e, ast.List):
            raise AnalysisError(f"LAY: _fields_ operand is not a list literal: {norm(e)[:60]}")
        out = []
        for x in e.elts:
            out.append(one(x))
        return out

    def one(x: ast.AST) -> Tuple[str, ast.AST]:
        if isinstance(x, ast.Tuple) and len(x.elts) == 2 and isinstance(x.elts[0], ast.Constant):
            return (x.elts[0].value, x.elts[1])
        if isinstance(x, ast.Name) and x.id in env:
            return env[x.id]
        raise AnalysisError(f"LAY: cannot fold field element {norm(x)[:60]}")

    def run(body: List[ast.stmt]) -> None:
        nonlocal fields
        for st in body:
            if isinstance(st, ast.Expr) and isinstance(st.value, ast.Constant):
                continue  # docstring
            if isinstance(st, (ast.FunctionDef, ast.Pass)):
                continue
            if isinstance(st, ast.If):
                conds = [ctx.V.cond(st.test, v)]
                c = conds[0]
                if c is None:
                    # `if extra_header_bytes:` -- debug-build padding
                    if isinstance(st.test, ast.Name) and st.test.id in env and env[st.test.id] == "debug-padding":
                        notes.append("assumed non-debug build: extra_header_bytes == 0")
                        c = False
                    else:
                        raise AnalysisError(f"LAY: undecidable condition in {cls.name} body: {norm(st.test)}")
                run(st.body if c else st.orelse)
                continue
            if isinstance(st, (ast.Assign, ast.AnnAssign)):
                tgt = st.targets[0] if isinstance(st, ast.Assign) else st.target
                val = st.value
                if isinstance(tgt, ast.Name) and tgt.id == "_fields_":
                    fields = elts(val)
                    continue
                if isinstance(tgt, ast.Name) and val is not None:
                    # f_code = _fields_.pop(0)
                    if isinstance(val, ast.Call) and norm(val.func) == "_fields_.pop":
                        idx = ast.literal_eval(val.args[0]) if val.args else -1
                        env[tgt.id] = fields.pop(idx)
                        continue
                    if "__sizeof__" in norm(val):
                        env[tgt.id] = "debug-padding"
                        continue
                raise AnalysisError(f"LAY: unsupported statement in {cls.name} body: {norm(st)[:80]}")
            if isinstance(st, ast.AugAssign) and isinstance(st.target, ast.Name) and st.target.id == "_fields_" and isinstance(st.op, ast.Add):
                fields.extend(elts(st.value))
                continue
            if isinstance(st, ast.Expr) and isinstance(st.value, ast.Call):
                f = norm(st.value.func)
                a = st.value.args
                if f == "_fields_.append":
                    fields.append(one(a[0]))
                    continue
                if f == "_fields_.insert":
                    fields.insert(ast.literal_eval(a[0]), one(a[1]))
                    continue
                if f == "_fields_.pop":
                    fields.pop(ast.literal_eval(a[0]) if a else -1)
                    continue
                if f == "_fields_.extend":
                    fields.extend(elts(a[0]))
                    continue
            if isinstance(st, ast.Delete):
                continue
            raise AnalysisError(f"LAY: unsupported statement in {cls.name} body: {norm(st)[:80]}")
    run(cls.body)
    if fields is None:
        raise AnalysisError(f"LAY: {cls.name} has no _fields_")
    return fields


def layout(fields: List[Tuple[str, ast.AST]]) -> Tuple[List[Dict[str, Any]], int]:
    out = []
    off = 0
    maxa = 1
    for name, t in fields:
        cls, size, align = ctype_class(t)
        off = (off + align - 1) // align * align
        out.append({"name": name, "cls": cls, "offset": off, "size": size})
        off += size
        maxa = max(maxa, align)
    total = (off + maxa - 1) // maxa * maxa
    return out, total


def _compare(ctx: Ctx, rule: str, mod: Mod, cls: ast.ClassDef, v: str, mine: List[Dict[str, Any]], theirs: List[Dict[str, Any]],
             what: str, read: set) -> None:
    for i, f in enumerate(mine):
        if i >= len(theirs):
            ctx.R.fail(rule, mod, cls, f"CPython {v}: {cls.name} declares field #{i} '{f['name']}' but {what} has only {len(theirs)} fields here",
                       construct=f"{v}: {cls.name}._fields_[{i}] = {f['name']}")
            return
        h = theirs[i]
        name_ok = f["name"] == h["name"] or (f["name"], h["name"]) in ALIASES
        if f["name"] in read and not name_ok:
            ctx.R.fail(rule, mod, cls, f"CPython {v}: {cls.name} field #{i} is read as '{f['name']}' but the header has '{h['name']}' at that position "
                       f"(offset {h['offset']}): stackscope would read the wrong slot",
                       construct=f"{v}: {cls.name}._fields_[{i}] = {f['name']}")
        elif not name_ok:
            ctx.R.fail(rule, mod, cls, f"CPython {v}: {cls.name} field #{i} '{f['name']}' does not correspond to header field '{h['name']}'",
                       construct=f"{v}: {cls.name}._fields_[{i}] = {f['name']}")
        elif f["cls"] != h["cls"] or f["offset"] != h["offset"]:
            ctx.R.fail(rule, mod, cls, f"CPython {v}: {cls.name}.{f['name']} is {f['cls']}@{f['offset']} but the header says {h['cls']}@{h['offset']} ({h['ctype']})",
                       construct=f"{v}: {cls.name}._fields_[{i}] = {f['name']}")
        else:
            ctx.R.ok(rule, f"{v}: {cls.name}.{f['name']} {f['cls']}@{f['offset']}", f"header {h['name']}: {h['ctype'].strip()}")


def _attr_reads(fn_or_mod: ast.AST, roots: set) -> set:
    out = set()
    for n in ast.walk(fn_or_mod):
        if isinstance(n, ast.Attribute) and isinstance(n.value, ast.Name) and n.value.id in roots:
            out.add(n.attr)
    return out


def lay311(ctx: Ctx) -> None:
    mod = ctx.P.mod("_lowlevel_cpython_311")
    ctx.R.saw(mod, "InterpreterFrame")
    ctx.R.saw(mod, "FrameObject")
    icls = mod.fn("InterpreterFrame")
    fcls = mod.fn("FrameObject")
    # names bound to `<...>.f_frame.contents`
    iframe_vars = set()
    for n in ast.walk(mod.tree):
        if isinstance(n, ast.Assign) and norm(n.value).endswith(".f_frame.contents") and isinstance(n.targets[0], ast.Name):
            iframe_vars.add(n.targets[0].id)
    if not iframe_vars:
        raise AnalysisError("LAY-311: no variable is bound to <frame>.f_frame.contents any more")
    read = _attr_reads(mod.tree, iframe_vars)
    frame_vars = set()
    for n in ast.walk(mod.tree):
        if isinstance(n, ast.Assign) and norm(n.value).startswith("FrameObject.from_address(") and isinstance(n.targets[0], ast.Name) \
                and norm(n.value).endswith(")"):
            frame_vars.add(n.targets[0].id)
    fread = _attr_reads(mod.tree, frame_vars) | {"f_frame"}
    notes: List[str] = []
    for v in ("3.11", "3.12"):
        H = ctx.F["headers"][v]
        mine, total = layout(fold_fields(ctx, mod, icls, v, notes))
        theirs = [f for f in H["iframe"] if f["name"] != "localsplus"]
        lp = [f for f in H["iframe"] if f["name"] == "localsplus"][0]
        _compare(ctx, "LAY-311", mod, icls, v, mine, theirs, "_PyInterpreterFrame", read)
        if len(mine) != len(theirs):
            ctx.R.fail("LAY-311", mod, icls, f"CPython {v}: InterpreterFrame has {len(mine)} fields, _PyInterpreterFrame has {len(theirs)} before localsplus",
                       construct=f"{v}: InterpreterFrame field count")
        if total != lp["offset"]:
            ctx.R.fail("LAY-311", mod, icls, f"CPython {v}: ctypes.sizeof(InterpreterFrame) would be {total} but localsplus starts at offset {lp['offset']}: every value-stack slot address is shifted",
                       construct=f"{v}: sizeof(InterpreterFrame)")
        else:
            ctx.R.ok("LAY-311", f"{v}: sizeof(InterpreterFrame) == offsetof(localsplus) == {total}")
        # every attribute read through an iframe variable is a declared field
        names = {f["name"] for f in mine}
        for r in sorted(read):
            if r not in names:
                ctx.R.fail("LAY-311", mod, icls, f"CPython {v}: code reads iframe field '{r}' which InterpreterFrame does not declare under {v}",
                           construct=f"{v}: read of undeclared field {r}")
        fmine, _ = layout(fold_fields(ctx, mod, fcls, v, notes))
        _compare(ctx, "LAY-311", mod, fcls, v, fmine, H["frameobject"], "struct _frame", fread)
        # FRAME_OWNED_BY_* constants
        for name, val in H["frameowner"].items():
            st = mod.toplevel_assign(name)
            if st is None:
                continue
            try:
                got = ast.literal_eval(st.value)
            except Exception:
                raise AnalysisError(f"LAY-311: {name} is not a literal")
            if got != val:
                ctx.R.fail("LAY-311", mod, st, f"CPython {v}: {name} is {got} here but {val} in enum _frameowner")
            else:
                ctx.R.ok("LAY-311", f"{v}: {name} == {val}")
    # where the value stack starts: after co_nlocalsplus slots.  CPython lays localsplus out as the distinct names of
    # (co_varnames + co_cellvars) followed by co_freevars (3.11: closed-over arguments are in both lists; 3.12 / PEP 709:
    # so are comprehension variables captured by an inner scope)
    fn = mod.fn("inspect_frame")
    ss = [a for a in ast.walk(fn) if isinstance(a, ast.Assign) and norm(a.targets[0]) == "stack_start_offset"]
    ref = "localsplus_offset + wordsize * (len(set(co.co_varnames + co.co_cellvars)) + len(co.co_freevars))"
    if len(ss) == 1 and norm(ss[0].value) == ref:
        ctx.R.ok("LAY-311", "value stack starts after len(set(co_varnames + co_cellvars)) + len(co_freevars) slots (= co_nlocalsplus)")
    elif len(ss) == 1:
        from .formulas import eval_on_code_vectors
        pre_ = [a for a in fn.body if isinstance(a, ast.Assign) and len(a.targets) == 1 and isinstance(a.targets[0], ast.Name) and a.lineno < ss[0].lineno
                and not any(isinstance(c_, ast.Call) and "ctypes" in norm(c_.func) for c_ in ast.walk(a.value)) and norm(a.targets[0]) not in ("co", "localsplus_offset")]
        kind, info = eval_on_code_vectors(ctx, [v_ for v_ in sorted(ctx.V.all) if v_ in ("3.11", "3.12")], ss[0].value, "localsplus_offset", +1, prelude=pre_)
        if kind == "ok":
            ctx.R.ok("LAY-311", f"stack_start_offset = {norm(ss[0].value)[:70]}", f"agrees with the observed number of fast-locals slots on {info} code-object shapes (FACTS localsplus_vectors)")
        elif kind == "bad":
            v_, vec, got, want = info
            ctx.R.fail("LAY-311", mod, ss[0], f"`stack_start_offset = {norm(ss[0].value)[:80]}` starts the value stack {(got - 4096) // 8} slots after localsplus for a function like `{vec['name']}` "
                       f"(varnames {vec['co_varnames']}, cellvars {vec['co_cellvars']}, freevars {vec['co_freevars']}) on CPython {v_}; the frame has {vec['slots']} fast-locals slots (co_nlocalsplus): "
                       "every stack slot is read at a shifted address (wrong managers, or a non-object word dereferenced)", construct=f"stack_start_offset: slot count wrong for {vec['name']}-shaped functions on {v_}")
        else:
            ctx.R.undecided("LAY-311", f"the number of localsplus slots before the value stack is computed by an expression outside the evaluator's fragment: {info}")
    else:
        ctx.R.undecided("LAY-311", "the number of localsplus slots before the value stack is computed by an expression other than the reference one "
                        "(len(set(co_varnames + co_cellvars)) + len(co_freevars)); its agreement with co_nlocalsplus on 3.11 and 3.12 cannot be decided statically")
    lo = [a for a in ast.walk(fn) if isinstance(a, ast.Assign) and norm(a.targets[0]) == "localsplus_offset"]
    if len(lo) == 1 and norm(lo[0].value) == "ctypes.sizeof(InterpreterFrame)":
        ctx.R.ok("LAY-311", "localsplus starts at sizeof(InterpreterFrame)")
    elif lo:
        ctx.R.fail("LAY-311", mod, lo[0], "localsplus starts right after the fixed part of _PyInterpreterFrame: ctypes.sizeof(InterpreterFrame)", construct=f"localsplus_offset = {norm(lo[0].value)[:60]}")
    for n in sorted(set(notes)):
        ctx.R.note(n)
    ctx.R.expect_min("LAY-311", 2 * (11 + 1 + 6 + 3))


def _find_literal_in(mod: Mod, fn: ast.AST, pred) -> List[ast.AST]:
    return [n for n in ast.walk(fn) if pred(n)]


def lay310(ctx: Ctx) -> None:
    mod = ctx.P.mod("_lowlevel_cpython_310")
    cls = mod.fn("FrameObjectStart")
    fn = mod.fn("inspect_frame")
    ctx.R.saw(mod, "FrameObjectStart")
    ctx.R.saw(mod, "inspect_frame")
    frame_vars = set()
    for n in ast.walk(fn):
        if isinstance(n, ast.Assign) and norm(n.value).startswith("FrameObjectStart.from_address(") and isinstance(n.targets[0], ast.Name):
            frame_vars.add(n.targets[0].id)
    read = _attr_reads(mod.tree, frame_vars | {"self"})
    notes: List[str] = []
    tb = None
    for n in list(ast.walk(fn)) + list(mod.tree.body):        # nested in inspect_frame, or moved to module level
        if isinstance(n, ast.ClassDef) and n.name == "PyTryBlock" and tb is None:
            tb = n
    if tb is None:
        raise AnalysisError("LAY-310: nested class PyTryBlock vanished")
    for v in ("3.9", "3.10"):
        H = ctx.F["headers"][v]
        mine, _ = layout(fold_fields(ctx, mod, cls, v, notes))
        _compare(ctx, "LAY-310", mod, cls, v, mine, H["frameobject"], "struct _frame", read)
        # the properties the code relies on must be declared (f_stacktop is a property on 3.10)
        declared = {f["name"] for f in mine} | {d.name for d in ast.walk(cls) if isinstance(d, ast.FunctionDef) and ctx.reach(mod).at(d) >= {v}}
        reach = ctx.reach(mod)
        read_v = {n.attr for n in ast.walk(mod.tree) if isinstance(n, ast.Attribute) and isinstance(n.value, ast.Name)
                  and n.value.id in (frame_vars | {"self"}) and v in reach.live.get(id(n), frozenset())}
        for r in sorted(read_v - {"value"}):
            if r.startswith("f_") or r.startswith("ob_"):
                if r not in declared:
                    ctx.R.fail("LAY-310", mod, cls, f"CPython {v}: code reads '{r}' which FrameObjectStart does not provide under {v}",
                               construct=f"{v}: read of undeclared field {r}")
        tmine, tsize = layout(fold_fields(ctx, mod, tb, v, notes))
        _compare(ctx, "LAY-310", mod, tb, v, tmine, H["PyTryBlock"], "PyTryBlock", {"b_type", "b_handler", "b_level"})
        hf = {f["name"]: f for f in H["frameobject"]}
        # literals
        want_blocks = H["CO_MAXBLOCKS"]
        d_iblock = hf["f_blockstack"]["offset"] - hf["f_iblock"]["offset"]
        d_lasti = hf["f_blockstack"]["offset"] - hf["f_lasti"]["offset"]
        bs_size = hf["f_localsplus"]["offset"] - hf["f_blockstack"]["offset"]
        seen = {"maxblocks": 0, "iblock": 0, "lasti": 0, "except": 0}
        for n in ast.walk(fn):
            # 20 * ctypes.sizeof(PyTryBlock)
            if isinstance(n, ast.BinOp) and isinstance(n.op, ast.Mult) and norm(n.right) == "ctypes.sizeof(PyTryBlock)" and isinstance(n.left, (ast.Constant, ast.Name)):
                okc, lv = resolve_const(mod, n, n.left)
                if not okc or not isinstance(lv, int):
                    ctx.R.undecided("LAY-310", f"cannot resolve `{norm(n.left)}` to a constant")
                    seen["maxblocks"] += 1
                    continue
                seen["maxblocks"] += 1
                if lv != want_blocks or lv * tsize != bs_size:
                    ctx.R.fail("LAY-310", mod, n, f"CPython {v}: block stack is CO_MAXBLOCKS={want_blocks} entries of {tsize} bytes ({bs_size} bytes), code assumes {lv}",
                               construct=f"{v}: {norm(n)}")
                else:
                    ctx.R.ok("LAY-310", f"{v}: {norm(n)} == sizeof(f_blockstack) == {bs_size}")
            # assert 0 <= f_iblock.value <= 20
            if isinstance(n, ast.Compare) and any(norm(x) == "f_iblock.value" for x in [n.left] + n.comparators):
                consts = []
                for x in [n.left] + n.comparators:
                    okc, cv = resolve_const(mod, n, x)
                    if okc and isinstance(cv, int):
                        consts.append(cv)
                seen["maxblocks"] += 1
                if len(consts) < 2:
                    ctx.R.undecided("LAY-310", f"cannot resolve the bounds of `{norm(n)}`")
                elif max(consts) != want_blocks:
                    ctx.R.fail("LAY-310", mod, n, f"CPython {v}: f_iblock is bounded by CO_MAXBLOCKS={want_blocks}, code checks {max(consts)}", construct=f"{v}: {norm(n)}")
                else:
                    ctx.R.ok("LAY-310", f"{v}: {norm(n)}")
            # f_iblock = ctypes.c_int.from_address(id(frame) + blockstack_offset - 8)
            if isinstance(n, ast.Assign) and isinstance(n.targets[0], ast.Name) and n.targets[0].id in ("f_iblock", "f_lasti") \
                    and isinstance(n.value, ast.Call) and norm(n.value.func).endswith(".from_address"):
                arg = n.value.args[0]
                if not (isinstance(arg, ast.BinOp) and isinstance(arg.op, ast.Sub) and isinstance(arg.right, ast.Constant)
                        and norm(arg.left) == "id(frame) + blockstack_offset"):
                    raise AnalysisError(f"LAY-310: shape of {norm(n)} changed")
                which = n.targets[0].id
                want = d_iblock if which == "f_iblock" else d_lasti
                seen["iblock" if which == "f_iblock" else "lasti"] += 1
                tcls = ctype_class(n.value.func.value)[0]
                if arg.right.value != want or tcls != hf[which]["cls"]:
                    ctx.R.fail("LAY-310", mod, n, f"CPython {v}: {which} lies {want} bytes before f_blockstack as {hf[which]['cls']}; code reads {tcls} at -{arg.right.value}",
                               construct=f"{v}: {norm(n)}")
                else:
                    ctx.R.ok("LAY-310", f"{v}: {which} at f_blockstack-{want} ({tcls})")
            # 257 == EXCEPT_HANDLER
            if isinstance(n, ast.Compare) and any(norm(x) == "block.b_type" for x in [n.left] + n.comparators):
                opers = [n.left] + list(n.comparators)
                for xi, x in enumerate(opers):
                    okc, xv = resolve_const(mod, n, x) if isinstance(x, (ast.Constant, ast.Name)) else (False, None)
                    if okc and isinstance(xv, int) and not isinstance(xv, bool) and xv > 200:
                        seen["except"] += 1
                        # an exclusive bound names the value above: `b_type < 258` is `b_type <= 257`
                        if xi > 0 and norm(opers[xi - 1]) == "block.b_type" and isinstance(n.ops[xi - 1], ast.Lt):
                            xv -= 1
                        elif xi + 1 < len(opers) and norm(opers[xi + 1]) == "block.b_type" and isinstance(n.ops[xi], ast.Gt):
                            xv -= 1
                        if xv != H["EXCEPT_HANDLER"]:
                            ctx.R.fail("LAY-310", mod, n, f"CPython {v}: EXCEPT_HANDLER is {H['EXCEPT_HANDLER']}, code uses {xv}", construct=f"{v}: {norm(n)[:100]}")
                        else:
                            ctx.R.ok("LAY-310", f"{v}: EXCEPT_HANDLER literal {xv} in {norm(n)[:50]}")
        for k, c in seen.items():
            if c == 0:
                raise AnalysisError(f"LAY-310: anchor for {k} vanished from inspect_frame")
        # offset_mult: f_lasti / b_handler count code units from 3.10
        om = [n for n in ast.walk(fn) if isinstance(n, ast.Assign) and isinstance(n.targets[0], ast.Name) and n.targets[0].id == "offset_mult"]
        if len(om) != 1 or not isinstance(om[0].value, ast.IfExp):
            raise AnalysisError("LAY-310: offset_mult anchor changed shape")
        c = ctx.V.cond(om[0].value.test, v)
        val = ast.literal_eval(om[0].value.body if c else om[0].value.orelse)
        want = 2 if v == "3.10" else 1
        if c is None or val != want:
            ctx.R.fail("LAY-310", mod, om[0], f"CPython {v}: f_lasti/b_handler are in units of {want} byte(s) per step, code uses {val}", construct=f"{v}: {norm(om[0])}")
        else:
            ctx.R.ok("LAY-310", f"{v}: offset_mult == {want}")
    for n in sorted(set(notes)):
        ctx.R.note(n)
    ctx.R.expect_min("LAY-310", 2 * (10 + 3 + 6))


def blk2(ctx: Ctx) -> None:
    """BLK-2 the sanity bound on f_iblock admits a full block stack.  f_iblock counts the entries in use, so its range is
    0..CO_MAXBLOCKS *inclusive* (FACTS headers: CO_MAXBLOCKS = 20 on 3.9 and 3.10; 20 nested with / try / loops-with-try is legal
    Python).  Every assert of the 3.9 / 3.10 reader whose test reads the block count is evaluated (engine MINI) for 0 and for
    CO_MAXBLOCKS: an assert that rejects either makes every such frame fail inspection (-> referents fallback, contexts less exact)"""
    from types import SimpleNamespace
    from ..minieval import Mini, Raised, Unsupported
    mod = ctx.P.mod("_lowlevel_cpython_310")
    caps = {v: ctx.F["headers"][v]["CO_MAXBLOCKS"] for v in ("3.9", "3.10") if v in ctx.F.get("headers", {})}
    if not caps:
        raise AnalysisError("BLK-2: no CO_MAXBLOCKS in the header facts")
    consts = {}
    for a_ in mod.tree.body:
        if isinstance(a_, (ast.Assign, ast.AnnAssign)) and isinstance(getattr(a_, "value", None), ast.Constant) and isinstance(a_.value.value, int):
            t_ = a_.targets[0] if isinstance(a_, ast.Assign) else a_.target
            if isinstance(t_, ast.Name):
                consts[t_.id] = a_.value.value
    n = 0
    for q, fn in mod.defs.items():
        if not isinstance(fn, (ast.FunctionDef, ast.AsyncFunctionDef)):
            continue
        # names that hold the count: f_iblock (a ctypes int: .value) and locals assigned from f_iblock.value
        holders = {a_.targets[0].id for a_ in walk_scope(fn) if isinstance(a_, ast.Assign) and len(a_.targets) == 1 and isinstance(a_.targets[0], ast.Name) and norm(a_.value) == "f_iblock.value"}
        for st in walk_scope(fn):
            if not isinstance(st, ast.Assert):
                continue
            reads = {x.id for x in ast.walk(st.test) if isinstance(x, ast.Name)}
            if not ("f_iblock" in reads or holders & reads):
                continue
            if any(isinstance(c_, ast.Call) for c_ in ast.walk(st.test)):
                continue      # relates the count to something else (sizes, offsets): not the range check
            for v, cap in sorted(caps.items()):
                for k in (0, cap):
                    env = dict(consts)
                    env["f_iblock"] = SimpleNamespace(value=k)
                    for h_ in holders:
                        env[h_] = k
                    try:
                        ok_ = Mini(env, {}, {}).truth(Mini(env, {}, {}).expr(st.test))
                    except (Unsupported, Raised) as ex:
                        ctx.R.undecided("BLK-2", f"{q}: `{norm(st.test)[:60]}` is outside the evaluator's fragment: {ex}")
                        break
                    except Exception as ex:
                        ctx.R.undecided("BLK-2", f"{q}: `{norm(st.test)[:60]}`: {type(ex).__name__}")
                        break
                    n += 1
                    if not ok_:
                        ctx.R.fail("BLK-2", mod, st, f"CPython {v}: `assert {norm(st.test)[:60]}` rejects a block count of {k}" + (f" = CO_MAXBLOCKS: a frame whose block stack is full ({cap} nested with / try blocks) "
                                   "fails inspection although it is well-formed; its contexts come from the referents fallback" if k == cap else ": every frame outside any block fails inspection"),
                                   construct=f"{q}: block-count bound rejects {k}")
                        break
                    ctx.R.ok("BLK-2", f"{v} {q}: `{norm(st.test)[:50]}` admits {k}")
                else:
                    continue
                break
    if n == 0:
        ctx.R.undecided("BLK-2", "no assert of the 3.9 / 3.10 reader bounds the block count (f_iblock)")


def blk1(ctx: Ctx) -> None:
    """BLK-1 the sanity bounds that inspect_frame (3.9 / 3.10 block stack) asserts on each block admit what each interpreter
    really stores: FACTS (except_handler_block, read from a live frame of each interpreter) say that the b_handler of an
    EXCEPT_HANDLER block is -1 on 3.9 and an instruction index on 3.10.  The lower bound of the asserted range is evaluated
    (engine MINI) for an EXCEPT_HANDLER block with that value under each version the module serves; if the assertion rejects
    it, every frame with an active except block fails inspection there and falls back to the referents scan"""
    from types import SimpleNamespace
    from ..minieval import Mini, Raised, Unsupported
    mod = ctx.P.mod("_lowlevel_cpython_310")
    fn = mod.fn("inspect_frame")
    # the statements that look at one block: the loop body that reads `block = PyTryBlock.from_address(...)`
    loops = [l for l in walk_scope(fn) if isinstance(l, (ast.While, ast.For)) and (any(isinstance(a, ast.Assign) and norm(a.targets[0]) == "block" for a in l.body)
                                                                                   or (isinstance(l, ast.For) and norm(l.target) == "block"))
             and any(isinstance(a, ast.Assert) for a in l.body)]
    if len(loops) != 1:
        ctx.R.undecided("BLK-1", f"{len(loops)} loops bind `block` and assert something about it (1 expected)")
        return
    body = loops[0].body
    bi = ([i for i, a in enumerate(body) if isinstance(a, ast.Assign) and norm(a.targets[0]) == "block"] or [-1])[0]
    # locals the checks use that are computed before the loop from the interpreter version only
    pre_names = {n.id for st in body for n in ast.walk(st) if isinstance(n, ast.Name)}
    pre = [a for a in walk_scope(fn) if isinstance(a, ast.Assign) and len(a.targets) == 1 and isinstance(a.targets[0], ast.Name) and a.targets[0].id in pre_names
           and "sys.version_info" in norm(a.value) and a not in body]
    checks = []
    for st in body[bi + 1:]:
        if isinstance(st, ast.Assert):
            checks.append(st)
        elif isinstance(st, ast.Assign) and len(st.targets) == 1 and isinstance(st.targets[0], ast.Name) and "block." in norm(st.value) and not any(isinstance(c_, ast.Call) for c_ in ast.walk(st.value)):
            checks.append(st)
    asserts = [c_ for c_ in checks if isinstance(c_, ast.Assert)]
    if not asserts:
        ctx.R.undecided("BLK-1", "the block loop asserts nothing about a block")
        return
    served = [v for v in sorted(ctx.V.all) if ctx.F["interp"][v].get("except_handler_block")]
    if not served:
        raise AnalysisError("BLK-1: no interpreter with a block stack in the facts")
    full = {"3.9": (3, 9, 18), "3.10": (3, 10, 13)}
    for v in served:
        fact = ctx.F["interp"][v]["except_handler_block"]
        h = fact["except_handler_b_handler"]
        if h is None or v not in full:
            ctx.R.undecided("BLK-1", f"{v}: no EXCEPT_HANDLER block observed")
            continue
        env = {n_.targets[0].id: n_.value.value for n_ in mod.tree.body if isinstance(n_, ast.Assign) and len(n_.targets) == 1 and isinstance(n_.targets[0], ast.Name)
               and isinstance(n_.value, ast.Constant) and isinstance(n_.value.value, (int, str))}      # module-level constants
        env.update({"sys": SimpleNamespace(version_info=full[v], implementation=SimpleNamespace(name="cpython")),
                    "block": SimpleNamespace(b_type=ctx.F["headers"][v]["EXCEPT_HANDLER"], b_handler=h, b_level=0),
                    "co": SimpleNamespace(co_code="x" * 1000), "stack": [0, 0, 0]})
        m = Mini(env)
        failed = None
        try:
            for a in pre:
                m.stmt(a)
            for st in checks:
                if isinstance(st, ast.Assert):
                    if not m.truth(m.expr(st.test)):
                        failed = st
                        break
                else:
                    m.stmt(st)
        except (Unsupported, Raised) as ex:
            ctx.R.undecided("BLK-1", f"{v}: the per-block checks are not evaluable: {ex}")
            continue
        if failed is None:
            ctx.R.ok("BLK-1", f"{v}: an EXCEPT_HANDLER block with b_handler {h} passes the {len(asserts)} per-block assertion(s)", "FACTS except_handler_block")
        else:
            ctx.R.fail("BLK-1", mod, failed, f"CPython {v} stores b_handler = {h} in EXCEPT_HANDLER blocks (FACTS: read from a live frame), and the block sanity assertion `{norm(failed.test)[:80]}` rejects that value: "
                       "inspect_frame raises AssertionError for every frame with an active except block on this interpreter, the trickery falls back to the referents scan (managers outside the "
                       "handler vanish, the exiting entry loses varname / start_line)", construct=f"{v}: EXCEPT_HANDLER b_handler {h} rejected")


RULES = [lay311, lay310, blk1, blk2]
