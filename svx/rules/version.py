"""VER-0..3, OPC-4: version soundness over CPython 3.9-3.12 (engine VER + FACTS)."""
from __future__ import annotations

import ast
import os
import subprocess
import sys
from typing import Dict, List, Optional, Set

from ..ctx import Ctx
from ..facts import PYENV, SUPPORTED
from ..model import AnalysisError, Mod, norm, walk_scope
from ..ver import Reach, VSet, fmt

LOWLEVEL = ["_lowlevel", "_lowlevel_cpython_311", "_lowlevel_cpython_310"]
VER_MODULES = LOWLEVEL + ["_extract", "_glue", "_customization", "_code_dispatch", "_types", "_util"]
# opnames that exist in no supported CPython but are legitimate: PyPy-only or 3.8-only
EXTRA_OPNAMES = {
    "LOOKUP_METHOD": "PyPy only",
    "SETUP_EXCEPT": "PyPy only",
    "WITH_CLEANUP_START": "CPython 3.8 arm",
    "BEGIN_FINALLY": "CPython 3.8 arm",
}


def ver0_compiles(ctx: Ctx) -> None:
    """VER-0 every module byte-compiles (parse + compile, not run) under each supported interpreter"""
    paths = [m.path for n, m in ctx.P.mods.items()]
    prog = (
        "import sys\n"
        "bad=[]\n"
        "for p in sys.argv[1:]:\n"
        "    try:\n"
        "        compile(open(p,encoding='utf-8').read(), p, 'exec', dont_inherit=True)\n"
        "    except SyntaxError as e:\n"
        "        bad.append('%s:%s: %s' % (p, e.lineno, e.msg))\n"
        "print('\\n'.join(bad))\n"
    )
    for short, full in SUPPORTED.items():
        exe = f"{PYENV}/{full}/bin/python3"
        r = subprocess.run([exe, "-I", "-S", "-c", prog] + paths, capture_output=True, text=True, timeout=60)
        if r.returncode != 0:
            raise AnalysisError(f"VER-0: {exe} failed: {r.stderr[-300:]}")
        bad = [l for l in r.stdout.splitlines() if l.strip()]
        if bad:
            for line in bad:
                p = line.split(":")[0]
                mod = [m for m in ctx.P.mods.values() if m.path == p][0]
                ctx.R.fail("VER-0", mod, None, f"does not compile under CPython {short}: {line}",
                           qualname=mod.name, construct=f"{short}: {line.split(': ',1)[-1]}")
        else:
            ctx.R.ok("VER-0", f"{len(paths)} modules compile under CPython {full}")


def _is_opmap(ctx: Ctx, mod: Mod, node: ast.AST) -> bool:
    """does this expression denote dis.opmap (directly or through a local alias)?"""
    if norm(node) == "dis.opmap":
        return True
    if isinstance(node, ast.Name):
        b = ctx.P._local_binding(mod, node, node.id)
        if isinstance(b, ast.Name):
            st = mod.parent_of(b)
            if isinstance(st, ast.Assign) and norm(st.value) == "dis.opmap":
                return True
            # code, op = co.co_code, dis.opmap
            if isinstance(st, ast.Tuple):
                asg = mod.parent_of(st)
                if isinstance(asg, ast.Assign) and isinstance(asg.value, ast.Tuple) and len(asg.value.elts) == len(st.elts):
                    for t_, v_ in zip(st.elts, asg.value.elts):
                        if t_ is b and norm(v_) == "dis.opmap":
                            return True
    return False


def opcode_subscripts(ctx: Ctx, mod: Mod):
    for n in ast.walk(mod.tree):
        if isinstance(n, ast.Subscript) and isinstance(n.slice, ast.Constant) and isinstance(n.slice.value, str) \
                and _is_opmap(ctx, mod, n.value):
            yield n


def ver1_opcodes(ctx: Ctx) -> None:
    """VER-1 every strict opmap subscript reachable under versions U names an opcode of every V in U"""
    total = 0
    for mn in LOWLEVEL:
        mod = ctx.P.mod(mn)
        ctx.R.saw(mod)
        reach = ctx.reach(mod)
        for n in opcode_subscripts(ctx, mod):
            total += 1
            live = reach.at(n)
            name = n.slice.value
            missing = sorted(v for v in live if name not in ctx.V.opmap[v])
            q = mod.qualname_of(n)
            if missing:
                st = n
                ctx.R.fail("VER-1", mod, n,
                           f"opcode {name} is looked up with a strict subscript on a path reachable under CPython "
                           f"{fmt(live)} but does not exist in {fmt(frozenset(missing))} (KeyError -> InspectionWarning / failure there)",
                           construct=f"{norm(n)} in {norm(_stmt(mod, n))[:160]}")
            else:
                ctx.R.ok("VER-1", f"{mn}.{q}: {norm(n)}", f"reachable under {fmt(live)}")
    ctx.R.expect_min("VER-1", 36)


def _stmt(mod: Mod, n: ast.AST) -> ast.AST:
    while not isinstance(n, ast.stmt):
        n = mod.parent_of(n)
    return n


def opc4_names(ctx: Ctx) -> None:
    """OPC-4 every opname literal the low-level code tests for exists somewhere"""
    known: Set[str] = set(EXTRA_OPNAMES)
    for v in ctx.V.opmap:
        known |= set(ctx.V.opmap[v])
    count = 0
    for mn in LOWLEVEL:
        mod = ctx.P.mod(mn)
        for n in ast.walk(mod.tree):
            lits: List[ast.Constant] = []
            if isinstance(n, ast.Compare) and len(n.ops) == 1 and isinstance(n.left, ast.Attribute) and n.left.attr == "opname":
                r = n.comparators[0]
                if isinstance(r, ast.Constant) and isinstance(r.value, str):
                    lits = [r]
                elif isinstance(r, (ast.Tuple, ast.List, ast.Set)):
                    lits = [x for x in r.elts if isinstance(x, ast.Constant) and isinstance(x.value, str)]
            elif isinstance(n, ast.Subscript) and isinstance(n.slice, ast.Constant) and isinstance(n.slice.value, str) and _is_opmap(ctx, mod, n.value):
                lits = [n.slice]
            elif isinstance(n, ast.Call) and isinstance(n.func, ast.Attribute) and n.func.attr == "get" and _is_opmap(ctx, mod, n.func.value) \
                    and n.args and isinstance(n.args[0], ast.Constant):
                lits = [n.args[0]]
            for lit in lits:
                count += 1
                if lit.value not in known:
                    ctx.R.fail("OPC-4", mod, n, f"'{lit.value}' is not an opcode name of CPython 3.9-3.12 nor a listed PyPy/3.8 name",
                               construct=f"{lit.value!r} in {norm(n)[:120]}")
                else:
                    ctx.R.ok("OPC-4", f"{mn}.{mod.qualname_of(n)}: {lit.value}")
    ctx.R.expect_min("OPC-4", 80)


def _admissible(ctx: Ctx, mod: Mod, fn_name: str) -> VSet:
    """versions under which importing the module and calling fn_name pass their version asserts"""
    reach = ctx.reach(mod)
    adm = reach.module_after
    fn = mod.fn(fn_name)
    live = adm
    for st in fn.body:
        if isinstance(st, ast.Assert):
            live, _ = ctx.V.split(st.test, live)
    return live


def ver2_dispatch(ctx: Ctx) -> None:
    """VER-2 the ctypes module selected for V is one whose version asserts hold for V"""
    mod = ctx.P.mod("_lowlevel")
    fn = mod.fn("inspect_frame")
    ctx.R.saw(mod, "inspect_frame")
    reach = ctx.reach(mod)
    covered: Set[str] = set()
    n_imports = 0
    for st in ast.walk(fn):
        if isinstance(st, ast.ImportFrom) and st.level == 1 and st.module and st.module.startswith("_lowlevel_") \
                and any(a.name == "inspect_frame" for a in st.names):
            target = st.module
            live = reach.at(st)
            if target == "_lowlevel_pypy":
                if live:
                    ctx.R.fail("VER-2", mod, st, f"PyPy implementation selected under CPython {fmt(live)}")
                else:
                    ctx.R.ok("VER-2", f"{norm(st)}", "unreachable on CPython")
                continue
            n_imports += 1
            tm = ctx.P.mod(target)
            adm = _admissible(ctx, tm, "inspect_frame")
            bad = live - adm
            if bad:
                ctx.R.fail("VER-2", mod, st, f"{target} is selected under CPython {fmt(live)} but its own version asserts only hold under {fmt(adm)}: "
                           f"frame inspection fails (AssertionError -> InspectionWarning) on {fmt(bad)}")
            else:
                ctx.R.ok("VER-2", norm(st), f"selected under {fmt(live)}, admissible under {fmt(adm)}")
            covered |= live
    # the rebinding must be global so the dispatch happens once and calls go to the real one
    if not any(isinstance(s, ast.Global) and "inspect_frame" in s.names for s in fn.body):
        ctx.R.fail("VER-2", mod, fn, "dispatcher no longer rebinds the module-level inspect_frame", construct="global inspect_frame")
    missing = ctx.V.all - covered
    if missing:
        ctx.R.fail("VER-2", mod, fn, f"no ctypes frame-inspection module is selected under CPython {fmt(missing)}",
                   construct="dispatch coverage")
    else:
        ctx.R.ok("VER-2", "dispatch coverage", f"every supported version selects a module: {fmt(frozenset(covered))}")
    ctx.R.expect_min("VER-2", 3)


def _module_defsets(ctx: Ctx, mod: Mod) -> Dict[str, VSet]:
    reach = ctx.reach(mod)
    out: Dict[str, VSet] = {}

    def bind(name: str, live: VSet) -> None:
        out[name] = out.get(name, frozenset()) | live

    def walk(body: List[ast.stmt]) -> None:
        for st in body:
            live = reach.at(st)
            if isinstance(st, (ast.FunctionDef, ast.AsyncFunctionDef, ast.ClassDef)):
                bind(st.name, live)
            elif isinstance(st, ast.Assign):
                for t in st.targets:
                    for n in ast.walk(t):
                        if isinstance(n, ast.Name):
                            bind(n.id, live)
            elif isinstance(st, (ast.AnnAssign, ast.AugAssign)):
                if isinstance(st.target, ast.Name) and (not isinstance(st, ast.AnnAssign) or st.value is not None):
                    bind(st.target.id, live)
            elif isinstance(st, ast.Import):
                for a in st.names:
                    bind(a.asname or a.name.split(".")[0], live)
            elif isinstance(st, ast.ImportFrom):
                for a in st.names:
                    if a.name == "*":
                        out["*"] = ctx.V.all
                    bind(a.asname or a.name, live)
            elif isinstance(st, ast.If):
                walk(st.body)
                walk(st.orelse)
            elif isinstance(st, ast.Try):
                walk(st.body)
                for h in st.handlers:
                    walk(h.body)
                walk(st.orelse)
                walk(st.finalbody)
            elif isinstance(st, (ast.With, ast.For, ast.While)):
                walk(st.body)
    walk(mod.tree.body)
    return out


def _builtin_set(ctx: Ctx, name: str) -> VSet:
    return frozenset(v for v in ctx.V.all if name in ctx.F["interp"][v]["builtins"])


def _marker_ok(marker: str, v: str) -> Optional[bool]:
    import re
    m = re.fullmatch(r"\s*python_version\s*(<=|>=|<|>|==|!=)\s*['\"](\d+)\.(\d+)['\"]\s*", marker)
    if not m:
        return None
    op, a, b = m.group(1), int(m.group(2)), int(m.group(3))
    cur = tuple(int(x) for x in v.split("."))
    return {"<": cur < (a, b), "<=": cur <= (a, b), ">": cur > (a, b), ">=": cur >= (a, b),
            "==": cur == (a, b), "!=": cur != (a, b)}[op]


def wf1_unbound_names(ctx: Ctx) -> None:
    """WF-1 no name is looked up globally that nothing binds.  The suite runs on one interpreter and never imports the other
    interpreters' modules or enters their branches, so a NameError there (an assignment or import dropped, a helper renamed in
    one place) is invisible to it.  Scopes are taken from the compiler's own symbol table (stdlib `symtable` over the source
    text): a name that a function / class scope resolves as an implicit global must be bound at module level (assignment, import,
    def, class, anywhere in the module body) or be a builtin of every supported interpreter"""
    import symtable
    DUNDER = {"__class__", "__name__", "__file__", "__doc__", "__package__", "__spec__", "__loader__", "__builtins__", "__debug__", "__qualname__", "__module__", "__annotations__", "__path__", "__dict__",
              "reveal_type", "__import__"}
    n = 0
    for mod in ctx.P.analysed_mods():
        try:
            top = symtable.symtable(mod.src, mod.path, "exec")
        except SyntaxError as ex:
            raise AnalysisError(f"WF-1: {mod.name} does not parse: {ex}")
        bound = {s_.get_name() for s_ in top.get_symbols() if s_.is_assigned() or s_.is_imported() or s_.is_namespace() or s_.is_parameter()}
        star = any(isinstance(x, ast.ImportFrom) and any(a.name == "*" for a in x.names) for x in ast.walk(ast.parse(mod.src)))
        if star:
            ctx.R.ok("WF-1", f"{mod.name}: star import", "not checked")
            continue
        # names used only inside `if TYPE_CHECKING:` / annotations are never evaluated (from __future__ import annotations)
        src_tree = ast.parse(mod.src)
        evaluated = set()
        future_ann = any(isinstance(x, ast.ImportFrom) and x.module == "__future__" and any(a.name == "annotations" for a in x.names) for x in src_tree.body)

        def collect(node: ast.AST, in_ann: bool) -> None:
            for fld, val in ast.iter_fields(node):
                ann = in_ann or (future_ann and fld in ("annotation", "returns"))
                for ch in (val if isinstance(val, list) else [val]):
                    if isinstance(ch, ast.AST):
                        if isinstance(ch, ast.Name) and isinstance(ch.ctx, ast.Load) and not ann:
                            evaluated.add((ch.id, ch.lineno))
                        collect(ch, ann)
        collect(src_tree, False)
        ev_names = {nm for nm, _ in evaluated}

        def walk(tab, path):
            nonlocal n
            for ch in tab.get_children():
                walk(ch, path + [ch.get_name()])
            if tab.get_type() == "module":
                return
            for s_ in tab.get_symbols():
                nm = s_.get_name()
                if not (s_.is_global() and s_.is_referenced()) or s_.is_declared_global() and s_.is_assigned():
                    continue
                n += 1
                if nm in bound or nm in DUNDER or nm not in ev_names:
                    continue
                bs = _builtin_set(ctx, nm)
                if bs == frozenset(ctx.V.all):
                    continue
                lines = sorted(ln for x, ln in evaluated if x == nm)
                where = f"stackscope/{mod.name}.py:{lines[0] if lines else tab.get_lineno()}"
                miss = "" if not bs else f" (a builtin only under {fmt(bs)})"
                ctx.R.fail("WF-1", mod, None, f"{'.'.join(path)} reads the global name `{nm}`, which nothing in stackscope.{mod.name} binds{miss}: NameError when that line runs "
                           f"({where}); code the 3.12 suite never imports or enters is only checked here", qualname=f"{mod.name}.{'.'.join(path)}", construct=f"unbound global {nm} in {'.'.join(path)}")
        walk(top, [])
    if n < 200:
        raise AnalysisError(f"WF-1: only {n} implicit-global references examined")
    ctx.R.ok("WF-1", f"{n} implicit-global references in {len(ctx.P.analysed_mods())} modules", "each bound at module level or a builtin of every supported interpreter")


def wf2_valued_returns(ctx: Ctx) -> None:
    """WF-2 a function annotated to return a value returns one on every path: no path falls off the end (or reaches a bare
    `return`) of a function whose return annotation is neither None / Optional / Any nor an iterator-like type of a generator.
    Like WF-1 this matters where the suite cannot look: `inspect_frame` of the 3.9/3.10 reader returning None is invisible on 3.12"""
    n = 0
    for mod in ctx.P.analysed_mods():
        for q, fn in mod.defs.items():
            if not isinstance(fn, (ast.FunctionDef, ast.AsyncFunctionDef)) or fn.returns is None:
                continue
            r = ast.unparse(fn.returns).strip("'\"")
            if r in ("None", "Any", "object", "NoReturn", "typing.Any") or r.startswith(("Optional[", "Union[", "Iterator[", "Generator[", "Iterable[", "AsyncIterator[", "AsyncGenerator[", "ContextManager[")) \
                    or "None" in r or r in ("T", "bool"):
                continue
            if any(isinstance(x, (ast.Yield, ast.YieldFrom)) for x in walk_scope(fn)):
                continue
            if any(norm(d).split(".")[-1] in ("overload", "abstractmethod") for d in fn.decorator_list):
                continue
            if len(fn.body) == 1 and isinstance(fn.body[0], ast.Expr) and isinstance(fn.body[0].value, ast.Constant):
                continue     # `...` / docstring-only stubs
            if fn.body and isinstance(fn.body[-1], ast.Raise) and len([s for s in fn.body if not (isinstance(s, ast.Expr) and isinstance(s.value, ast.Constant))]) == 1:
                continue     # raise NotImplementedError
            n += 1
            g = ctx.cfg(fn)
            live_ = g.reachable_from(g.entry)
            bare = [x for x in walk_scope(fn) if isinstance(x, ast.Return) and x.value is None and id(x) in g.by_ast and g.by_ast[id(x)].idx in live_]
            falls = g.falls_off_end() if hasattr(g, "falls_off_end") else None
            if bare:
                ctx.R.fail("WF-2", mod, bare[0], f"{q} is declared to return `{r}` but has a bare `return`: its callers get None", construct=f"{q}: bare return")
            elif falls:
                ctx.R.fail("WF-2", mod, fn, f"{q} is declared to return `{r}` but a path reaches the end of its body without a return: its callers get None (e.g. `details.blocks` on None) "
                           "-- invisible to the suite when the function lives in a module or branch the 3.12 run never enters", construct=f"{q}: falls off the end")
            elif falls is False:
                ctx.R.ok("WF-2", f"{mod.name}.{q} -> {r}", "every path ends in `return <value>` or raises")
    if n < 30:
        raise AnalysisError(f"WF-2: only {n} value-returning functions examined")


def wf3_internal_call_arity(ctx: Ctx) -> None:
    """WF-3 every call of a module-level function or dataclass of the package binds its arguments: not more positional arguments
    than parameters, no keyword the callee does not have, no required parameter left out.  A TypeError at such a call is an
    ordinary test failure where the suite goes, and invisible where it does not (the other interpreters' modules and branches).
    Callees are resolved through `from .mod import name`, `from . import mod` + attribute, and same-module definitions that are
    bound exactly once; decorated functions, classes with bases or an explicit __init__, and calls with * / ** are skipped"""
    import symtable

    def top_defs(mod):
        out = {}
        counts = {}
        for n in ast.walk(mod.tree):
            if isinstance(n, ast.Name) and isinstance(n.ctx, ast.Store) and mod.enclosing_def(n) is None:
                counts[n.id] = counts.get(n.id, 0) + 1
        for n in mod.tree.body:
            if isinstance(n, (ast.FunctionDef, ast.AsyncFunctionDef, ast.ClassDef)):
                counts[n.name] = counts.get(n.name, 0) + 1
                out[n.name] = n
        return {k: v for k, v in out.items() if counts.get(k) == 1}

    def signature(d):
        """(positional names, n required positional, keyword-only {name: required}, has *args, has **kw) or None"""
        if isinstance(d, (ast.FunctionDef, ast.AsyncFunctionDef)):
            if d.decorator_list:
                return None
            a = d.args
            pos = [x.arg for x in a.posonlyargs + a.args]
            nreq = len(pos) - len(a.defaults)
            kwo = {x.arg: dv is None for x, dv in zip(a.kwonlyargs, a.kw_defaults)}
            return pos, nreq, kwo, a.vararg is not None, a.kwarg is not None, len(a.posonlyargs)
        if isinstance(d, ast.ClassDef):
            decs = [norm(x.func) if isinstance(x, ast.Call) else norm(x) for x in d.decorator_list]
            if not decs or any(x.split(".")[-1] != "dataclass" for x in decs) or d.bases or any(isinstance(m_, ast.FunctionDef) and m_.name in ("__init__", "__new__") for m_ in d.body):
                return None
            if any(isinstance(x, ast.Call) and any(k.arg in ("init", "kw_only") for k in x.keywords) for x in d.decorator_list):
                return None
            pos, nreq = [], 0
            for f_ in d.body:
                if isinstance(f_, ast.AnnAssign) and isinstance(f_.target, ast.Name) and "ClassVar" not in norm(f_.annotation):
                    pos.append(f_.target.id)
                    if f_.value is None:
                        nreq = len(pos)
                    elif isinstance(f_.value, ast.Call) and norm(f_.value.func).split(".")[-1] == "field" and not any(k.arg in ("default", "default_factory") for k in f_.value.keywords):
                        nreq = len(pos)
                    elif isinstance(f_.value, ast.Call) and norm(f_.value.func).split(".")[-1] == "field" and any(k.arg == "init" for k in f_.value.keywords):
                        return None
            return pos, nreq, {}, False, False, 0
        return None

    tops = {m.name: top_defs(m) for m in ctx.P.analysed_mods()}
    n = 0
    for mod in ctx.P.analysed_mods():
        imported: Dict[str, Tuple[str, str]] = {}
        modalias: Dict[str, str] = {}
        for x in mod.tree.body:
            if isinstance(x, ast.ImportFrom) and x.level == 1:
                for a in x.names:
                    if x.module and x.module in tops:
                        imported[a.asname or a.name] = (x.module, a.name)
                    elif x.module is None and a.name in tops:
                        modalias[a.asname or a.name] = a.name
        try:
            top = symtable.symtable(mod.src, mod.path, "exec")
        except SyntaxError:
            continue
        for c in ast.walk(mod.tree):
            if not isinstance(c, ast.Call):
                continue
            target = None
            if isinstance(c.func, ast.Name):
                nm = c.func.id
                fn_ = mod.enclosing_def(c)
                # shadowed by a local / parameter / nested def of an enclosing function?
                shadow = False
                e_ = fn_
                while e_ is not None:
                    if isinstance(e_, (ast.FunctionDef, ast.AsyncFunctionDef, ast.Lambda)):
                        ps = {a.arg for a in e_.args.posonlyargs + e_.args.args + e_.args.kwonlyargs} | ({e_.args.vararg.arg} if e_.args.vararg else set()) | ({e_.args.kwarg.arg} if e_.args.kwarg else set())
                        if nm in ps or any((isinstance(y, ast.Name) and isinstance(y.ctx, ast.Store) and y.id == nm) or (isinstance(y, (ast.FunctionDef, ast.AsyncFunctionDef, ast.ClassDef)) and y.name == nm and y is not e_)
                                           or (isinstance(y, ast.ExceptHandler) and y.name == nm) or (isinstance(y, (ast.Import, ast.ImportFrom)) and any((a.asname or a.name.split(".")[0]) == nm for a in y.names))
                                           for y in walk_scope(e_)):
                            shadow = True
                    elif isinstance(e_, ast.ClassDef) and any(isinstance(y, (ast.FunctionDef, ast.AsyncFunctionDef)) and y.name == nm for y in e_.body):
                        pass
                    e_ = mod.enclosing_def(e_)
                if shadow:
                    continue
                if nm in tops[mod.name]:
                    target = (mod.name, tops[mod.name][nm])
                elif nm in imported and imported[nm][1] in tops[imported[nm][0]]:
                    target = (imported[nm][0], tops[imported[nm][0]][imported[nm][1]])
            elif isinstance(c.func, ast.Attribute) and isinstance(c.func.value, ast.Name) and c.func.value.id in modalias and c.func.attr in tops[modalias[c.func.value.id]]:
                target = (modalias[c.func.value.id], tops[modalias[c.func.value.id]][c.func.attr])
            elif isinstance(c.func, ast.Attribute) and isinstance(c.func.value, ast.Name):
                # Outer.Inner(...): a class nested in a package-level class (FrameDetails.FinallyBlock)
                nm = c.func.value.id
                outer = None
                if nm in tops[mod.name]:
                    outer = (mod.name, tops[mod.name][nm])
                elif nm in imported and imported[nm][1] in tops[imported[nm][0]]:
                    outer = (imported[nm][0], tops[imported[nm][0]][imported[nm][1]])
                if outer is not None and isinstance(outer[1], ast.ClassDef):
                    inner = [y for y in outer[1].body if isinstance(y, ast.ClassDef) and y.name == c.func.attr]
                    if len(inner) == 1:
                        target = (outer[0], inner[0])
            if target is None:
                continue
            sig = signature(target[1])
            if sig is None or any(isinstance(a, ast.Starred) for a in c.args) or any(k.arg is None for k in c.keywords):
                continue
            pos, nreq, kwo, var, kw, npo = sig
            n += 1
            npos = len(c.args)
            kws = [k.arg for k in c.keywords]
            what = None
            if npos > len(pos) and not var:
                what = f"{npos} positional arguments for {len(pos)} parameters"
            else:
                unknown = [k for k in kws if k not in pos[npo:] and k not in kwo and not kw]
                dup = [k for k in kws if k in pos[:npos]]
                missing = [p_ for i, p_ in enumerate(pos[:nreq]) if i >= npos and p_ not in kws] + [k for k, req in kwo.items() if req and k not in kws]
                if unknown:
                    what = f"unknown keyword argument(s) {unknown}"
                elif dup:
                    what = f"argument(s) {dup} given both by position and by keyword"
                elif missing:
                    what = f"required argument(s) {missing} not given"
            if what:
                ctx.R.fail("WF-3", mod, c, f"`{norm(c)[:70]}` calls {target[0]}.{target[1].name} with {what}: TypeError when this line runs -- an ordinary test failure where the 3.12 suite goes, "
                           "invisible in the modules and branches of the other interpreters", construct=f"{mod.qualname_of(c)}: {norm(c.func)}(...) {what}")
    if n < 60:
        raise AnalysisError(f"WF-3: only {n} internal calls resolved")
    ctx.R.ok("WF-3", f"{n} calls of package-level functions / dataclasses", "arguments bind to the callee's parameters")


def ver3_bindings(ctx: Ctx) -> None:
    """VER-3 a name used under versions U is bound under every V in U"""
    import re
    stdlib = set(sys.stdlib_module_names) | {"__future__"}
    n_cond = 0
    for mn in VER_MODULES:
        mod = ctx.P.mod(mn)
        ctx.R.saw(mod)
        reach = ctx.reach(mod)
        adm = reach.module_after
        defsets = _module_defsets(ctx, mod)
        restricted = {k: v for k, v in defsets.items() if not (adm <= v)}
        # (a) module-level conditional bindings: every global use must be covered
        for n in ast.walk(mod.tree):
            if isinstance(n, ast.Name) and isinstance(n.ctx, ast.Load):
                name = n.id
                if name not in restricted and name in defsets:
                    continue
                if ctx.P._local_binding(mod, n, name) is not None:
                    continue
                live = reach.live.get(id(n))
                if live is None:
                    continue  # annotation-only positions are not walked
                if name in restricted:
                    have = restricted[name] | _builtin_set(ctx, name)
                    bad = live - have
                    n_cond += 1
                    if bad:
                        ctx.R.fail("VER-3", mod, n, f"'{name}' is bound only under CPython {fmt(restricted[name])} but used on a path reachable under {fmt(live)}: NameError on {fmt(bad)}",
                                   construct=f"{name} in {norm(_stmt(mod, n))[:140]}")
                    else:
                        ctx.R.ok("VER-3", f"{mn}.{mod.qualname_of(n)}: use of conditional global '{name}'", f"bound {fmt(have)}, used {fmt(live)}")
                elif name not in defsets and "*" not in defsets:
                    bs = _builtin_set(ctx, name)
                    if bs and not (live <= bs):
                        n_cond += 1
                        ctx.R.fail("VER-3", mod, n, f"builtin '{name}' does not exist in CPython {fmt(live - bs)}",
                                   construct=f"{name} in {norm(_stmt(mod, n))[:140]}")
        # (b) cross-module imports of conditional names
        for n in ast.walk(mod.tree):
            if isinstance(n, ast.ImportFrom) and n.level == 1 and n.module and n.module in ctx.P.mods:
                src = ctx.P.mod(n.module)
                sdef = _module_defsets(ctx, src)
                sadm = ctx.reach(src).module_after
                live = reach.live.get(id(n), adm)
                for a in n.names:
                    if a.name in sdef and not (sadm <= sdef[a.name]):
                        n_cond += 1
                        bad = live - sdef[a.name]
                        if bad:
                            ctx.R.fail("VER-3", mod, n, f"imports '{a.name}' which {n.module} defines only under {fmt(sdef[a.name])}, on a path reachable under {fmt(live)}")
                        else:
                            ctx.R.ok("VER-3", f"{mn}: {norm(n)}", f"defined {fmt(sdef[a.name])}, imported under {fmt(live)}")
        # (c) function-local names bound under a restricted version set
        for q, fn in mod.defs.items():
            if not isinstance(fn, (ast.FunctionDef, ast.AsyncFunctionDef)):
                continue
            fl = reach.fn_live.get(id(fn))
            if fl is None:
                continue
            binds: Dict[str, VSet] = {}
            for x in walk_scope(fn):
                if isinstance(x, ast.Name) and isinstance(x.ctx, ast.Store):
                    binds[x.id] = binds.get(x.id, frozenset()) | reach.live.get(id(x), fl)
                elif isinstance(x, (ast.FunctionDef, ast.AsyncFunctionDef, ast.ClassDef)):
                    binds[x.name] = binds.get(x.name, frozenset()) | reach.live.get(id(x), fl)
                elif isinstance(x, (ast.Import, ast.ImportFrom)):
                    for a in x.names:
                        nm = a.asname or a.name.split(".")[0]
                        binds[nm] = binds.get(nm, frozenset()) | reach.live.get(id(x), fl)
            params = {a.arg for a in fn.args.args + fn.args.kwonlyargs + fn.args.posonlyargs}
            declared_global = {nm for x in walk_scope(fn) if isinstance(x, (ast.Global, ast.Nonlocal)) for nm in x.names}
            for name, bset in binds.items():
                if name in params or name in declared_global or fl <= bset:
                    continue
                for x in ast.walk(fn):
                    if isinstance(x, ast.Name) and isinstance(x.ctx, ast.Load) and x.id == name:
                        b = ctx.P._local_binding(mod, x, name)
                        if b is None or mod.enclosing_def(b) is not fn:
                            continue  # bound in a nested scope of its own
                        live = reach.live.get(id(x))
                        if live is None:
                            continue
                        n_cond += 1
                        bad = live - bset
                        if bad:
                            # a read under `if flag:` where the flag is a local that only ever receives constants: the flag can be
                            # true only on an interpreter on which one of its true-ish assignments is live
                            from .opcodes import guards_of
                            for g_, pol in guards_of(mod, x, fn):
                                neg = isinstance(g_, ast.UnaryOp) and isinstance(g_.op, ast.Not)
                                fl_ = g_.operand if neg else g_
                                if not isinstance(fl_, ast.Name) or fl_.id in params:
                                    continue
                                asg = [a_ for a_ in walk_scope(fn) if isinstance(a_, (ast.Assign, ast.AnnAssign)) and any(isinstance(t_, ast.Name) and t_.id == fl_.id for t_ in (a_.targets if isinstance(a_, ast.Assign) else [a_.target]))]
                                stores = [w_ for w_ in walk_scope(fn) if isinstance(w_, ast.Name) and w_.id == fl_.id and isinstance(w_.ctx, ast.Store)]
                                if not asg or len(stores) != len(asg) or not all(isinstance(a_.value, ast.Constant) for a_ in asg):
                                    continue
                                want_true = pol != neg
                                can = frozenset().union(*[reach.live.get(id(a_), reach.at(a_) if hasattr(reach, "at") else fl) for a_ in asg if bool(a_.value.value) == want_true]) if any(bool(a_.value.value) == want_true for a_ in asg) else frozenset()
                                live = live & can
                            bad = live - bset
                        if bad:
                            ctx.R.fail("VER-3", mod, x, f"local '{name}' is assigned only under CPython {fmt(bset)} but read on a path reachable under {fmt(live)}: UnboundLocalError on {fmt(bad)}",
                                       construct=f"{name} in {norm(_stmt(mod, x))[:140]}")
                        else:
                            ctx.R.ok("VER-3", f"{mn}.{q}: local '{name}'", f"assigned {fmt(bset)}, read {fmt(live)}")
        # (d) conditional third-party imports vs setup.py environment markers
        for st in mod.tree.body + [s for b in mod.tree.body if isinstance(b, ast.If) for s in b.body + b.orelse]:
            if isinstance(st, (ast.Import, ast.ImportFrom)) and not getattr(st, "level", 0):
                roots = [st.module.split(".")[0]] if isinstance(st, ast.ImportFrom) else [a.name.split(".")[0] for a in st.names]
                live = reach.at(st)
                for root in roots:
                    if root in stdlib or live == adm:
                        continue
                    n_cond += 1
                    reqs = [r for r in ctx.F["setup"]["install_requires"] if re.split(r"[ <>=!;\[]", r.strip(), 1)[0] == root]
                    bad = []
                    for v in live:
                        okv = False
                        for r in reqs:
                            marker = r.split(";", 1)[1] if ";" in r else None
                            if marker is None or _marker_ok(marker, v):
                                okv = True
                        if not okv:
                            bad.append(v)
                    if bad:
                        ctx.R.fail("VER-3", mod, st, f"third-party module '{root}' is imported under CPython {fmt(live)} but setup.py installs it only per {reqs}: ImportError on {fmt(frozenset(bad))}")
                    else:
                        ctx.R.ok("VER-3", f"{mn}: {norm(st)}", f"imported under {fmt(live)}; install_requires {reqs}")
    ctx.R.expect_min("VER-3", 6)
    ctx.R.note("observation (no listed property): typing_extensions is imported unconditionally by _customization/_code_dispatch but is not in setup.py install_requires")


RULES = [ver0_compiles, ver1_opcodes, ver2_dispatch, ver3_bindings, opc4_names]


def ver4_stdlib_api(ctx: Ctx) -> None:
    """VER-4 every standard-library name used under versions U exists, and every call of it binds, in the
    standard library of each V in U (names and signatures taken from each interpreter)"""
    API = {v: ctx.F["interp"][v]["stdlib"] for v in ctx.V.all}
    known_mods = set(API[next(iter(ctx.V.all))])
    n = 0
    unknown_mods: Set[str] = set()
    for mn in VER_MODULES:
        mod = ctx.P.mod(mn)
        reach = ctx.reach(mod)
        adm = reach.module_after

        def live_of(node: ast.AST) -> VSet:
            return reach.live.get(id(node), adm)

        # local name -> (stdlib module, attr or None)
        binds: Dict[str, tuple] = {}
        for st in ast.walk(mod.tree):
            if isinstance(st, ast.Import):
                for a in st.names:
                    if a.name in known_mods:
                        binds[a.asname or a.name.split(".")[0]] = (a.name if a.asname else a.name.split(".")[0], None)
                    elif a.name.split(".")[0] in sys.stdlib_module_names:
                        unknown_mods.add(a.name)
            elif isinstance(st, ast.ImportFrom) and not st.level and st.module:
                if st.module in known_mods:
                    for a in st.names:
                        if a.name == "*":
                            continue
                        binds[a.asname or a.name] = (st.module, a.name)
                        n += 1
                        live = live_of(st)
                        bad = sorted(v for v in live if a.name not in API[v][st.module]["names"])
                        if bad:
                            ctx.R.fail("VER-4", mod, st, f"`from {st.module} import {a.name}` is reachable under CPython {fmt(live)} but {st.module}.{a.name} does not exist in {bad}: ImportError there",
                                       construct=f"from {st.module} import {a.name}")
                        else:
                            ctx.R.ok("VER-4", f"{mn}: from {st.module} import {a.name}", f"exists in {fmt(live)}")
                elif st.module.split(".")[0] in sys.stdlib_module_names:
                    unknown_mods.add(st.module)

        def resolve(e: ast.AST):
            """expression -> (module, dotted attr path) if it denotes a stdlib object"""
            if isinstance(e, ast.Name) and e.id in binds and ctx.P._local_binding(mod, e, e.id) is None:
                m, a = binds[e.id]
                return (m, a)
            if isinstance(e, ast.Attribute):
                base = resolve(e.value)
                if base is not None:
                    m, a = base
                    if a is None:
                        sub = f"{m}.{e.attr}"
                        if sub in known_mods and e.attr not in API[next(iter(ctx.V.all))][m]["sigs"]:
                            return (sub, None)
                        return (m, e.attr)
                    return (m, f"{a}.{e.attr}")
            return None

        for node in ast.walk(mod.tree):
            if isinstance(node, ast.Attribute) and isinstance(node.ctx, ast.Load):
                r = resolve(node)
                if r is None or r[1] is None:
                    continue
                m, path = r
                parts = path.split(".")
                if len(parts) > 2:
                    continue
                live = reach.live.get(id(node))
                if live is None:
                    continue  # annotation positions
                n += 1
                bad = []
                for v in live:
                    names = API[v][m]["names"]
                    if parts[0] not in names:
                        bad.append(v)
                    elif len(parts) == 2 and parts[0] in API[v][m]["members"] and parts[1] not in API[v][m]["members"][parts[0]] and not parts[1].startswith("__"):
                        bad.append(v)
                if bad:
                    ctx.R.fail("VER-4", mod, node, f"`{m}.{path}` is used on a path reachable under CPython {fmt(live)} but does not exist in {sorted(bad)}: AttributeError there",
                               construct=f"{m}.{path} in {norm(_stmt(mod, node))[:100]}")
                else:
                    ctx.R.ok("VER-4", f"{mn}.{mod.qualname_of(node)}: {m}.{path}", f"exists in {fmt(live)}")
        for call in ast.walk(mod.tree):
            if not isinstance(call, ast.Call):
                continue
            r = resolve(call.func)
            if r is None or r[1] is None:
                continue
            m, path = r
            live = reach.live.get(id(call))
            if live is None:
                continue
            if any(isinstance(a, ast.Starred) for a in call.args) or any(k.arg is None for k in call.keywords):
                continue
            npos = len(call.args)
            kws = [k.arg for k in call.keywords]
            bad = {}
            checked = False
            for v in live:
                sg = API[v][m]["sigs"].get(path)
                if sg is None:
                    continue
                checked = True
                pos_max = sg["pos_max"]
                is_method = "." in path and path.split(".")[0] in API[v][m]["members"]
                # unbound-style signatures of methods reached through the class include `self` for plain functions;
                # classmethods/staticmethods do not: only judge what is unambiguous (module-level callables and classes)
                if is_method:
                    continue
                if npos + len([k for k in kws if k in sg["kw"][: max(0, sg["pos_min"] - npos)]]) < sg["pos_min"] and not all(
                        p in kws for p in sg["kw"][npos:sg["pos_min"]]):
                    bad[v] = f"needs at least {sg['pos_min']} positional argument(s), {npos} given"
                elif pos_max is not None and npos > pos_max:
                    bad[v] = f"takes at most {pos_max} positional argument(s), {npos} given"
                else:
                    unk = [k for k in kws if k not in sg["kw"]]
                    if unk and not sg["varkw"]:
                        bad[v] = f"has no keyword parameter {unk}"
            if checked:
                n += 1
                if bad:
                    ctx.R.fail("VER-4", mod, call, f"`{norm(call)[:70]}` is reachable under CPython {fmt(live)} but does not bind to the signature of {m}.{path} in "
                               + "; ".join(f"{v}: {why}" for v, why in sorted(bad.items())) + " (TypeError there; invisible to the 3.12-only suite)",
                               construct=f"{norm(call)[:100]}")
                else:
                    ctx.R.ok("VER-4", f"{mn}.{mod.qualname_of(call)}: call {m}.{path}({npos} positional, {kws})", f"binds in {fmt(live)}")
    if unknown_mods:
        ctx.R.note(f"VER-4: standard-library modules imported by the package but not in the fact tables (unchecked): {sorted(unknown_mods)}")
    if n < 150:
        raise AnalysisError(f"VER-4: only {n} standard-library uses checked (>= 150 confirmed by hand)")


RULES = [ver0_compiles, ver1_opcodes, ver2_dispatch, ver3_bindings, opc4_names, ver4_stdlib_api]


def ver5_introspection_attrs(ctx: Ctx) -> None:
    """VER-5 attributes of the interpreter's introspection objects (code / frame / generator / coroutine / async generator /
    dis.Instruction), recognised by their conventional prefixes, exist on every interpreter under which the access is reachable"""
    IA = {v: ctx.F["interp"][v]["introspection_attrs"] for v in ctx.V.all}
    n = 0
    for mn in VER_MODULES:
        mod = ctx.P.mod(mn)
        reach = ctx.reach(mod)
        # names of variables that hold ctypes views (their f_* fields are stackscope's own declarations, checked by LAY)
        ctypes_vars = set()
        for a in ast.walk(mod.tree):
            if isinstance(a, ast.Assign) and isinstance(a.targets[0], ast.Name) and (".from_address(" in norm(a.value) or norm(a.value).endswith(".contents")):
                ctypes_vars.add(a.targets[0].id)
        for node in ast.walk(mod.tree):
            if not isinstance(node, ast.Attribute) or not isinstance(node.ctx, ast.Load):
                continue
            attr = node.attr
            pref = next((p for p in ("co_", "gi_", "cr_", "ag_", "tb_", "f_") if attr.startswith(p)), None)
            kind = pref
            if pref is None:
                # dis.Instruction fields on the conventional variable names
                if isinstance(node.value, ast.Name) and node.value.id in ("insn", "ins", "instr") or (isinstance(node.value, ast.Subscript) and norm(node.value.value) == "insns"):
                    kind = "instruction"
                else:
                    continue
            if pref == "f_":
                root = node.value
                if isinstance(root, ast.Name) and (root.id in ctypes_vars or root.id == "self"):
                    continue
                if attr in ("f_stacktop", "f_stackdepth", "f_valuestack", "f_iblock", "f_frame", "f_func"):
                    continue  # C-level fields only reachable through the ctypes views
            live = reach.live.get(id(node))
            if not live:
                continue
            n += 1
            bad = sorted(v for v in live if attr not in IA[v][kind])
            if bad:
                ctx.R.fail("VER-5", mod, node, f"`.{attr}` is read on a path reachable under CPython {fmt(live)} but {'dis.Instruction' if kind == 'instruction' else 'the ' + kind + '* objects'} "
                           f"have no such attribute on {bad}: AttributeError there (contained as an InspectionWarning / Stack.error at best, invisible to the 3.12-only suite)",
                           construct=f".{attr} in {norm(_stmt(mod, node))[:100]}")
            else:
                ctx.R.ok("VER-5", f"{mn}.{mod.qualname_of(node)}: .{attr}", f"exists on {fmt(live)}")
    if n < 60:
        raise AnalysisError(f"VER-5: only {n} introspection attribute reads found (>= 60 confirmed by hand)")


def ver5b_dynamic_attr_names(ctx: Ctx) -> None:
    """VER-5b attribute names handed to getattr / hasattr as strings -- literal, or built from the constant arguments of an
    enclosing factory (f"{prefix}_await" with prefix in {"gi", "cr", "ag"}) -- that look like attributes of the interpreter's
    introspection objects exist on those objects on every supported interpreter (a default argument of getattr would hide the
    AttributeError: generators have gi_yieldfrom, not gi_await)"""
    import itertools
    IA = {v: ctx.F["interp"][v]["introspection_attrs"] for v in ctx.V.all}
    n = 0

    def enclosing_fns(mod: Mod, node: ast.AST) -> List[ast.AST]:
        return [a for a in mod.ancestors(node) if isinstance(a, (ast.FunctionDef, ast.AsyncFunctionDef))]

    def values(mod: Mod, e: ast.AST, at: ast.AST, depth: int = 0) -> Optional[Set[str]]:
        if depth > 4:
            return None
        if isinstance(e, ast.Constant) and isinstance(e.value, str):
            return {e.value}
        if isinstance(e, ast.JoinedStr):
            parts: List[Set[str]] = []
            for p_ in e.values:
                if isinstance(p_, ast.Constant):
                    parts.append({str(p_.value)})
                elif isinstance(p_, ast.FormattedValue) and p_.conversion == -1 and p_.format_spec is None:
                    v = values(mod, p_.value, at, depth + 1)
                    if v is None:
                        return None
                    parts.append(v)
                else:
                    return None
            return {"".join(c) for c in itertools.product(*parts)}
        if isinstance(e, ast.BinOp) and isinstance(e.op, ast.Add):
            l, r = values(mod, e.left, at, depth + 1), values(mod, e.right, at, depth + 1)
            if l is None or r is None:
                return None
            return {a + b for a in l for b in r}
        if isinstance(e, ast.Name):
            for fn in enclosing_fns(mod, at):
                params = [a.arg for a in fn.args.posonlyargs + fn.args.args + fn.args.kwonlyargs]
                if e.id in params:
                    # constant arguments at the call sites of this function in the module
                    idx = params.index(e.id)
                    out: Set[str] = set()
                    calls = [c for c in ast.walk(mod.tree) if isinstance(c, ast.Call) and isinstance(c.func, ast.Name) and c.func.id == fn.name]
                    if not calls:
                        return None
                    for c in calls:
                        arg = c.args[idx] if idx < len(c.args) else next((k.value for k in c.keywords if k.arg == e.id), None)
                        if isinstance(arg, ast.Constant) and isinstance(arg.value, str):
                            out.add(arg.value)
                        else:
                            return None
                    return out
                assigns = [a for a in ast.walk(fn) if isinstance(a, ast.Assign) and len(a.targets) == 1 and isinstance(a.targets[0], ast.Name) and a.targets[0].id == e.id
                           and mod.enclosing_def(a) is fn]
                if len(assigns) == 1:
                    return values(mod, assigns[0].value, assigns[0], depth + 1)
                if assigns:
                    return None
            return None
        return None

    for mn in VER_MODULES:
        mod = ctx.P.mod(mn)
        for c in ast.walk(mod.tree):
            if not (isinstance(c, ast.Call) and isinstance(c.func, ast.Name) and c.func.id in ("getattr", "hasattr") and len(c.args) >= 2):
                continue
            vs = values(mod, c.args[1], c)
            if not vs:
                continue
            for s_ in sorted(vs):
                pref = next((p_ for p_ in ("co_", "gi_", "cr_", "ag_", "tb_") if s_.startswith(p_)), None)
                if pref is None:
                    continue
                n += 1
                bad = sorted(v for v in ctx.V.all if s_ not in IA[v][pref])
                if bad:
                    hidden = " (the default argument hides the AttributeError: the value is silently the default)" if c.func.id == "getattr" and len(c.args) == 3 else ""
                    ctx.R.fail("VER-5", mod, c, f"`{norm(c)[:60]}` looks up the attribute name '{s_}', which the {pref}* objects do not have on CPython {bad}{hidden}",
                               construct=f"dynamic attribute name {s_}")
                else:
                    ctx.R.ok("VER-5", f"{mn}.{mod.qualname_of(c)}: {c.func.id}(..., '{s_}')", "exists on every supported interpreter")
    if n < 2:
        raise AnalysisError(f"VER-5b: {n} string-named introspection attributes found (>= 2 confirmed by hand: hasattr(referent, 'ag_frame' / 'cr_frame'))")


RULES = [ver0_compiles, ver1_opcodes, ver2_dispatch, ver3_bindings, opc4_names, ver4_stdlib_api, ver5_introspection_attrs, ver5b_dynamic_attr_names, wf1_unbound_names, wf2_valued_returns, wf3_internal_call_arity]

API = [ver3_bindings, ver4_stdlib_api, ver5_introspection_attrs, ver5b_dynamic_attr_names, wf1_unbound_names, wf2_valued_returns, wf3_internal_call_arity]
