"""OPC-1 (cache normalisation), OPC-2 (target decoder exhaustiveness),
OPC-3 / OPC-3b (with-prologue length and fillers), INT, EXI, JOIN-1, LINE-1, FALL-1."""
from __future__ import annotations

import ast
from collections import Counter
from typing import Any, Dict, List, Optional, Set, Tuple

from ..cfg import CFG, Node
from ..ctx import Ctx
from ..model import AnalysisError, Mod, norm, walk_scope
from ..ver import fmt
from .version import _is_opmap


# --------------------------------------------------------------------- helpers
def _stmt(mod: Mod, n: ast.AST) -> ast.AST:
    while not isinstance(n, ast.stmt):
        n = mod.parent_of(n)
    return n


def opname_literals(test: ast.AST) -> List[Tuple[ast.Compare, List[str]]]:
    """(<x>.opname ==/in ...) comparisons inside an expression"""
    out = []
    for n in ast.walk(test):
        if isinstance(n, ast.Compare) and len(n.ops) == 1 and isinstance(n.left, ast.Attribute) and n.left.attr == "opname" \
                and isinstance(n.ops[0], (ast.Eq, ast.In)):
            r = n.comparators[0]
            if isinstance(r, ast.Constant) and isinstance(r.value, str):
                out.append((n, [r.value]))
            elif isinstance(r, (ast.Tuple, ast.List, ast.Set)):
                out.append((n, [x.value for x in r.elts if isinstance(x, ast.Constant) and isinstance(x.value, str)]))
    return out


def _always_leaves(body: List[ast.stmt]) -> bool:
    """the block cannot fall through to what follows it (ends in return / raise / continue / break, or in an if whose
    branches both do)"""
    if not body:
        return False
    last = body[-1]
    if isinstance(last, (ast.Return, ast.Raise, ast.Continue, ast.Break)):
        return True
    if isinstance(last, ast.If):
        return _always_leaves(last.body) and _always_leaves(last.orelse)
    return False


def guards_of(mod: Mod, node: ast.AST, stop: ast.AST) -> List[Tuple[ast.AST, bool]]:
    """path conditions (test, polarity) from `stop` down to `node` (If / While ancestors)"""
    out: List[Tuple[ast.AST, bool]] = []
    child = node
    for a in mod.ancestors(node):
        if a is stop:
            break
        if isinstance(a, ast.If):
            if any(child is s for s in a.body):
                out.append((a.test, True))
            elif any(child is s for s in a.orelse):
                out.append((a.test, False))
        elif isinstance(a, ast.While):
            if any(child is s for s in a.body):
                out.append((a.test, True))
        elif isinstance(a, ast.IfExp):
            # the arms of a conditional expression are guarded like the arms of an if statement
            if child is a.body:
                out.append((a.test, True))
            elif child is a.orelse:
                out.append((a.test, False))
        child = a
    return out[::-1]


def path_guards_of(mod: Mod, node: ast.AST, stop: ast.AST) -> List[Tuple[ast.AST, bool]]:
    """guards_of plus guard clauses: earlier `if c: <leaves>` statements in the enclosing blocks (then c is false here)"""
    out: List[Tuple[ast.AST, bool]] = []
    child = node
    for a in mod.ancestors(node):
        for fld in ("body", "orelse", "finalbody"):
            blk = getattr(a, fld, None)
            if isinstance(blk, list) and any(child is s for s in blk):
                idx = [i for i, s in enumerate(blk) if s is child][0]
                pre: List[Tuple[ast.AST, bool]] = []
                for s in blk[:idx]:
                    if isinstance(s, ast.If):
                        if _always_leaves(s.body) and not _always_leaves(s.orelse):
                            pre.append((s.test, False))
                        elif s.orelse and _always_leaves(s.orelse) and not _always_leaves(s.body):
                            pre.append((s.test, True))
                out.extend(pre[::-1])
        if a is stop:
            break
        if isinstance(a, ast.If):
            if any(child is s for s in a.body):
                out.append((a.test, True))
            elif any(child is s for s in a.orelse):
                out.append((a.test, False))
        elif isinstance(a, ast.While):
            if any(child is s for s in a.body):
                out.append((a.test, True))
        child = a
    return out[::-1]


def nguards(mod: Mod, node: ast.AST, stop: ast.AST) -> List[Tuple[str, bool]]:
    """guards as (text, polarity) with leading `not`s folded into the polarity"""
    out = []
    for g, pol in guards_of(mod, node, stop):
        while isinstance(g, ast.UnaryOp) and isinstance(g.op, ast.Not):
            g, pol = g.operand, not pol
        out.append((norm(g), pol))
    return out


def eval_guard(ctx: Ctx, e: ast.AST, v: str, env: Dict[str, bool]) -> Optional[bool]:
    if isinstance(e, ast.Name) and e.id in env:
        return env[e.id]
    if isinstance(e, ast.UnaryOp) and isinstance(e.op, ast.Not):
        r = eval_guard(ctx, e.operand, v, env)
        return None if r is None else not r
    if isinstance(e, ast.BoolOp):
        rs = [eval_guard(ctx, x, v, env) for x in e.values]
        if isinstance(e.op, ast.And):
            if any(r is False for r in rs):
                return False
            return True if all(r is True for r in rs) else None
        if any(r is True for r in rs):
            return True
        return False if all(r is False for r in rs) else None
    return ctx.V.cond(e, v)


# --------------------------------------------------------------------- OPC-2
def opc2_target_decoder(ctx: Ctx) -> None:
    mod = ctx.P.mod("_lowlevel")
    outer = mod.fn("describe_assignment_target")
    nt = mod.fn("describe_assignment_target.next_target")
    ctx.R.saw(mod, "describe_assignment_target.next_target")
    reach = ctx.reach(mod)
    handled: Dict[str, List[ast.AST]] = {}

    def all_raise(body: List[ast.stmt]) -> bool:
        return bool(body) and isinstance(body[-1], ast.Raise)

    # if/elif chain(s) dispatching on insn.opname inside next_target
    for n in ast.walk(nt):
        if isinstance(n, ast.If):
            lits = opname_literals(n.test)
            if not lits:
                continue
            if all_raise(n.body):
                continue  # a case that only raises is not a handler
            for cmp_node, names in lits:
                for nm in names:
                    handled.setdefault(nm, []).append(cmp_node)
    # early exits of the outer function
    for n in walk_scope(outer):
        if isinstance(n, ast.If):
            for cmp_node, names in opname_literals(n.test):
                for nm in names:
                    handled.setdefault(nm, []).append(cmp_node)
    if len(handled) < 20:
        raise AnalysisError(f"OPC-2: only {len(handled)} opnames found in the decoder's dispatch chain; shape changed")
    # the chain must end in a raising else (unknown opcode => varname None, never a wrong name)
    for v in sorted(ctx.V.all, key=lambda s: tuple(map(int, s.split(".")))):
        emitted = dict(ctx.F["interp"][v]["targets"]["opnames"])
        # plus every always-rendered target of every with statement of that interpreter's standard library (3.11+)
        sw = ctx.F["interp"][v].get("stdlib_with")
        if sw:
            for nm, cnt in sw["store_opnames"].items():
                emitted[nm] = emitted.get(nm, 0) + cnt
        for nm in sorted(emitted):
            sites = [s for s in handled.get(nm, []) if v in reach.live.get(id(s), frozenset())]
            if not sites:
                ctx.R.fail("OPC-2", mod, nt,
                           f"the CPython {v} compiler emits {nm} in the store sequence of an always-rendered `as` target "
                           f"({emitted[nm]} occurrences in the {ctx.F['interp'][v]['targets']['compiled']}-statement corpus) but the decoder has no case for it: varname is dropped",
                           construct=f"{v}: {nm}")
            else:
                ctx.R.ok("OPC-2", f"{v}: {nm} handled", f"{emitted[nm]} corpus occurrences")
    ctx.R.expect_min("OPC-2", 70)
    # OPC-2b: an opcode without a case, or a sequence that leaves more than one value, must give up (varname None),
    # never produce a name: "varname is never wrong"
    chains = [n for n in ast.walk(nt) if isinstance(n, ast.If) and opname_literals(n.test)]
    tops = [c for c in chains if not any(c in o.orelse for o in chains)]
    big = max(tops, key=lambda c: sum(1 for _ in ast.walk(c))) if tops else None
    if big is None:
        raise AnalysisError("OPC-2b: dispatch chain not found")
    last = big
    while last.orelse and len(last.orelse) == 1 and isinstance(last.orelse[0], ast.If):
        last = last.orelse[0]
    if last.orelse and isinstance(last.orelse[-1], ast.Raise):
        ctx.R.ok("OPC-2b", "an opcode without a case raises (-> varname None)")
    else:
        ctx.R.fail("OPC-2b", mod, last, "the dispatch chain of the target decoder does not end in a raising `else`: an instruction it does not understand is silently skipped and a wrong name can be produced",
                   construct="dispatch chain: else raise")
    depth_ifs = [n for n in ast.walk(nt) if isinstance(n, ast.If) and "len(stack)" in norm(n.test)]
    if any(isinstance(n.body[-1], ast.Raise) and norm(n.test) in ("len(stack) != 1", "not len(stack) == 1") for n in depth_ifs):
        ctx.R.ok("OPC-2b", "a store sequence that does not leave exactly one value raises (-> varname None)")
    elif not depth_ifs:
        ctx.R.fail("OPC-2b", mod, nt, "the decoder no longer rejects store sequences that leave more or fewer than one value on its symbolic stack: a partial expression is reported as the target",
                   construct="len(stack) != 1 -> raise")
    elif any(not isinstance(n.body[-1], ast.Raise) for n in depth_ifs):
        ctx.R.fail("OPC-2b", mod, depth_ifs[0], "the decoder's stack-depth check no longer raises", construct="len(stack) != 1 -> raise")
    else:
        ctx.R.undecided("OPC-2b", "stack-depth check has an unrecognised condition")
    tries = [t for t in ast.walk(outer) if isinstance(t, ast.Try) and any(isinstance(c, ast.Call) and norm(c.func) == "next_target" for b in t.body for c in ast.walk(b))]
    okx = False
    for t in tries:
        for h in t.handlers:
            names = [norm(e) for e in h.type.elts] if isinstance(h.type, ast.Tuple) else ([norm(h.type)] if h.type is not None else [])
            hb = list(h.body)
            # `if <option that is off by default>: raise` in front: the default path is what follows
            dflt_off = {a_.arg for a_, d_ in list(zip(reversed(outer.args.args), reversed(outer.args.defaults))) + list(zip(outer.args.kwonlyargs, outer.args.kw_defaults))
                        if isinstance(d_, ast.Constant) and d_.value is False}
            while hb and isinstance(hb[0], ast.If) and isinstance(hb[0].test, ast.Name) and hb[0].test.id in dflt_off and not hb[0].orelse \
                    and not any(isinstance(w_, ast.Name) and w_.id == hb[0].test.id and isinstance(w_.ctx, ast.Store) for w_ in ast.walk(outer)):
                hb = hb[1:]
            if ("ValueError" in names or "Exception" in names) and ("IndexError" in names or "Exception" in names or "LookupError" in names) \
                    and len(hb) == 1 and isinstance(hb[0], ast.Return) and norm(hb[0].value) == "None":
                okx = True
    if okx:
        ctx.R.ok("OPC-2b", "ValueError / IndexError from the decoder become varname None")
    else:
        ctx.R.fail("OPC-2b", mod, outer, "a decoder failure (ValueError for an unknown opcode, IndexError for an underflow of its symbolic stack) must turn into varname None, not propagate as an InspectionWarning for the whole frame",
                   construct="except (ValueError, IndexError): return None")


# --------------------------------------------------------------------- OPC-3 / 3b
def _with_branches(ctx: Ctx, mod: Mod, fn: ast.AST):
    """the If statements of analyze_with_blocks' instruction loop that test insn.opname against with-opcodes"""
    out = []
    for n in ast.walk(fn):
        if isinstance(n, ast.If):
            for _, names in opname_literals(n.test):
                if any(x in ("SETUP_WITH", "SETUP_ASYNC_WITH", "BEFORE_WITH", "BEFORE_ASYNC_WITH") for x in names):
                    out.append((n, names))
                    break
    return out


def _skip_scope(ctx: Ctx, mod: Mod, br: ast.AST, var: str):
    """where is `var` (the number of instructions to skip) computed?  -> (scope node, variable name, name of the is_async flag there)
    Follows one call of a module-level helper: `skip_insns = _helper(insns, idx, is_async)`."""
    for st in ast.walk(br):
        if isinstance(st, ast.Assign) and isinstance(st.targets[0], ast.Name) and st.targets[0].id == var and isinstance(st.value, ast.Call) \
                and isinstance(st.value.func, ast.Name) and st.value.func.id in mod.defs:
            hf = mod.defs[st.value.func.id]
            rets = [r for r in ast.walk(hf) if isinstance(r, ast.Return) and r.value is not None]
            if len(rets) == 1 and isinstance(rets[0].value, ast.Name):
                flag = "is_async"
                params = [a.arg for a in hf.args.args]
                for i, a in enumerate(st.value.args):
                    if norm(a) == "is_async" and i < len(params):
                        flag = params[i]
                for k in st.value.keywords:
                    if norm(k.value) == "is_async" and k.arg:
                        flag = k.arg
                return hf, rets[0].value.id, flag
            return None
    return br, var, "is_async"


class _Probe:
    """stands in for the recorder while a rule is run only to learn its verdict"""
    def __init__(self) -> None:
        self.fails: List[str] = []
        self.undec: List[str] = []
        self.oks = 0
        self.findings: List[Any] = []
        self.errors: List[str] = []

    def ok(self, *a, **k) -> None:
        self.oks += 1

    def fail(self, rule, *a, **k) -> None:
        self.fails.append(rule)

    def undecided(self, rule, msg="", *a, **k) -> None:
        self.undec.append(msg)

    def saw(self, *a, **k) -> None:
        pass

    note = expect_min = positive_example = saw


def _opc3c_all_ok(ctx: Ctx) -> Optional[int]:
    """number of prologue layouts OPC-3c evaluates, if it evaluates all of them and every one is decoded at the right index"""
    c = getattr(ctx, "_opc3c_ok", "unset")
    if c != "unset":
        return c
    R0, pr = ctx.R, _Probe()
    ctx.R = pr
    try:
        opc3c_prologue_eval(ctx)
        res = pr.oks if not pr.fails and not pr.undec and pr.oks else None
    except Exception:
        res = None
    finally:
        ctx.R = R0
    ctx._opc3c_ok = res
    return res


def opc3_prologue(ctx: Ctx) -> None:
    mod = ctx.P.mod("_lowlevel")
    fn = mod.fn("analyze_with_blocks")
    ctx.R.saw(mod, "analyze_with_blocks")
    reach = ctx.reach(mod)
    branches = _with_branches(ctx, mod, fn)
    if len(branches) < 2:
        raise AnalysisError("OPC-3: with-opcode branches of analyze_with_blocks not found")
    for v in sorted(ctx.V.all, key=lambda s: tuple(map(int, s.split(".")))):
        IF = ctx.F["interp"][v]
        with_ops = IF["with_ops"]
        plain = {"sync": IF["prologues"]["plain/sync"][0], "async": IF["prologues"]["plain/async"][0]}
        # which branch handles V's with-opcodes?
        mine = [(b, names) for b, names in branches if v in reach.at(b.body[0]) and all(w in names for w in with_ops)]
        if len(mine) != 1:
            ctx.R.fail("OPC-3", mod, fn, f"CPython {v}: with-opcodes {with_ops} are handled by {len(mine)} branches of analyze_with_blocks (expected exactly one reachable under {v})",
                       construct=f"{v}: with-opcode branch")
            continue
        br, _ = mine[0]
        # the call describe_assignment_target(insns, idx + <k or skip_insns>)
        calls = [c for c in ast.walk(br) if isinstance(c, ast.Call) and isinstance(c.func, ast.Name) and c.func.id == "describe_assignment_target"
                 and mod.parent_of(c) is not None and any(c is x for s in br.body for x in ast.walk(s))]
        if len(calls) != 1:
            if _opc3c_all_ok(ctx):
                ctx.R.ok("OPC-3", f"{v}: not applied to this shape (the arm does not call describe_assignment_target itself)", "deferred to OPC-3c: the loop body evaluated on every prologue layout of every interpreter decodes the target at the right index")
                ctx.R.ok("OPC-3", f"{v}: (second kind, same deferral)")
                continue
            raise AnalysisError(f"OPC-3: expected one describe_assignment_target call in the {v} branch")
        arg = calls[0].args[1]
        if not (isinstance(arg, ast.BinOp) and isinstance(arg.op, ast.Add) and norm(arg.left) == "idx"):
            raise AnalysisError(f"OPC-3: second argument changed shape: {norm(arg)}")
        for kind in ("sync", "async"):
            want = len(plain[kind])
            if isinstance(arg.right, ast.Constant):
                got = arg.right.value
                detail = f"literal {got}"
            elif isinstance(arg.right, ast.Name):
                sc = _skip_scope(ctx, mod, br, arg.right.id)
                if sc is None:
                    ctx.R.undecided("OPC-3", f"{v}/{kind}: cannot follow how {arg.right.id} is computed")
                    continue
                scope, var, flag = sc
                env = {flag: kind == "async"}
                got = None
                incs = []
                br_ = br
                br = scope
                unknown = None
                for st in ast.walk(scope):
                    if isinstance(st, ast.Assign) and isinstance(st.targets[0], ast.Name) and st.targets[0].id == var:
                        gs0 = [eval_guard(ctx, g, v, env) if pol else _neg(eval_guard(ctx, g, v, env)) for g, pol in guards_of(mod, st, br)]
                        if any(g is False for g in gs0):
                            continue      # an assignment on a path this interpreter / kind does not take
                        if not all(g is True for g in gs0):
                            unknown = f"`{norm(st)}` is assigned under a condition that is not a version / kind test"
                        val = st.value
                        if isinstance(val, ast.IfExp):
                            c = eval_guard(ctx, val.test, v, env)
                            if c is None:
                                raise AnalysisError(f"OPC-3: cannot fold {norm(st)}")
                            val = val.body if c else val.orelse
                        try:
                            got = ast.literal_eval(val)
                        except Exception:
                            continue
                    elif isinstance(st, ast.AugAssign) and isinstance(st.target, ast.Name) and st.target.id == var and isinstance(st.op, ast.Add):
                        gs = [eval_guard(ctx, g, v, env) if pol else _neg(eval_guard(ctx, g, v, env)) for g, pol in guards_of(mod, st, br)]
                        if any(g is False for g in gs):
                            continue
                        if all(g is True for g in gs):
                            try:
                                incs.append(ast.literal_eval(st.value))
                            except Exception:
                                unknown = f"the increment `{norm(st)}` is not a literal"
                        # data-dependent increments are the fillers of OPC-3b
                br = br_
                if unknown is not None:
                    if _opc3c_all_ok(ctx):
                        ctx.R.ok("OPC-3", f"{v}/{kind}: not applied to this shape ({unknown[:80]})", "deferred to OPC-3c: the loop body evaluated on every prologue layout of every interpreter decodes the target at the right index")
                    else:
                        ctx.R.undecided("OPC-3", f"{v}/{kind}: {unknown} (see OPC-3c, which evaluates the loop body)")
                    continue
                if got is None:
                    ctx.R.undecided("OPC-3", f"{v}/{kind}: no literal initial assignment of {var}")
                    continue
                got += sum(incs)
                detail = f"{var} folds to {got} (unconditional increments {incs})"
            else:
                raise AnalysisError(f"OPC-3: cannot fold {norm(arg.right)}")
            if got != want:
                ctx.R.fail("OPC-3", mod, calls[0],
                           f"CPython {v}, {kind} with: the compiler puts the first store instruction {want} instructions after {with_ops[kind == 'async']} "
                           f"({plain[kind]}), the analysis skips {got}: varname and the handler lookup are off by {got - want}",
                           construct=f"{v}/{kind}: prologue length")
            else:
                ctx.R.ok("OPC-3", f"{v}/{kind}: prologue length {want}", detail)
    ctx.R.expect_min("OPC-3", 8)


def _neg(x: Optional[bool]) -> Optional[bool]:
    return None if x is None else (not x)


def opc3b_fillers(ctx: Ctx) -> None:
    mod = ctx.P.mod("_lowlevel")
    fn = mod.fn("analyze_with_blocks")
    reach = ctx.reach(mod)
    n_layouts = 0
    scopes = [(fn, "skip_insns", "is_async")]
    for st in ast.walk(fn):
        if isinstance(st, ast.Assign) and isinstance(st.targets[0], ast.Name) and isinstance(st.value, ast.Call) and isinstance(st.value.func, ast.Name) \
                and st.value.func.id in mod.defs and "skip" in st.targets[0].id:
            sc = _skip_scope(ctx, mod, fn, st.targets[0].id)
            if sc is not None and sc[0] is not fn:
                scopes.append(sc)
    if not any(isinstance(x, ast.AugAssign) for sc in scopes for x in ast.walk(sc[0])):
        ctx.R.undecided("OPC-3b", "no `skip += n` adjustments found")
        return
    for v in sorted(ctx.V.all, key=lambda s: tuple(map(int, s.split(".")))):
        IF = ctx.F["interp"][v]
        for kind in ("sync", "async"):
            plain = Counter(IF["prologues"][f"plain/{kind}"][0])
            fillers: Dict[str, str] = {}
            layouts = dict(IF["prologues"])
            sw = IF.get("stdlib_with")
            if sw:
                for k_, (pl_, cnt_) in enumerate(sw["prologues"][kind]):
                    layouts[f"stdlib#{k_}(x{cnt_})/{kind}"] = [pl_]
            for lay, lists in layouts.items():
                if not lay.endswith("/" + kind):
                    continue
                for pl in lists:
                    n_layouts += 1
                    extra = Counter(pl) - plain
                    for nm in extra:
                        fillers.setdefault(nm, lay)
            for nm, lay in sorted(fillers.items()):
                ok = False
                for scope, var, flag in scopes:
                  env = {flag: kind == "async"}
                  for st in ast.walk(scope):
                    if isinstance(st, ast.AugAssign) and isinstance(st.target, ast.Name) and st.target.id == var:
                        if v not in reach.at(st):
                            continue
                        gs = guards_of(mod, st, scope)
                        if any((eval_guard(ctx, g, v, env) if pol else _neg(eval_guard(ctx, g, v, env))) is False for g, pol in gs):
                            continue
                        for g, pol in gs:
                            if pol and any(nm in names for _, names in opname_literals(g)):
                                if isinstance(st.op, ast.Add) and isinstance(st.value, ast.Constant) and st.value.value == 1:
                                    ok = True
                                else:
                                    ctx.R.fail("OPC-3b", mod, st, f"CPython {v}: the adjustment for the filler {nm} must skip exactly one more instruction (`+= 1`); the code does `{norm(st)}`",
                                               construct=f"{v}/{kind}: filler {nm} adjustment {norm(st)}")
                                    ok = True
                if ok:
                    ctx.R.ok("OPC-3b", f"{v}/{kind}: filler {nm} (layout {lay}) is skipped")
                else:
                    ctx.R.fail("OPC-3b", mod, fn,
                               f"CPython {v}: the compiler can place {nm} between the {kind} with prologue and the first store instruction (layout '{lay}') "
                               f"but no skip_insns adjustment reachable under {v} tests for it: varname/handler lookup shift by one for such statements",
                               construct=f"{v}/{kind}: filler {nm}")
    ctx.R.note(f"OPC-3b: {n_layouts} layout prologues compared with the plain prologue")
    ctx.R.expect_min("OPC-3b", 4)


# --------------------------------------------------------------------- OPC-1
RAW, NORM = "RAW", "NORM"


def _is_cache_loop(ctx: Ctx, mod: Mod, st: ast.AST, var: str, opname_param: Optional[str] = None) -> bool:
    """while <... code[var] == op['CACHE'] ...>: var -= 2     (or op[<opname_param>] inside a helper parameterised by the name)"""
    if not isinstance(st, ast.While):
        return False
    has = False
    for n in ast.walk(st.test):
        if isinstance(n, ast.Compare) and len(n.ops) == 1 and isinstance(n.ops[0], ast.Eq):
            a, b = n.left, n.comparators[0]
            for x, y in ((a, b), (b, a)):
                if isinstance(x, ast.Subscript) and norm(x.slice) == var and isinstance(y, ast.Subscript) and _is_opmap(ctx, mod, y.value) \
                        and ((isinstance(y.slice, ast.Constant) and y.slice.value == "CACHE") or (opname_param is not None and isinstance(y.slice, ast.Name) and y.slice.id == opname_param)):
                    has = True
    if not has:
        return False
    # the conjunction must make CACHE necessary for staying in the loop
    t = st.test
    if isinstance(t, ast.BoolOp) and not isinstance(t.op, ast.And):
        return False
    return all(isinstance(s, ast.AugAssign) and norm(s.target) == var and isinstance(s.op, ast.Sub) for s in st.body)


def _normalising_helpers(ctx: Ctx, mod: Mod, fn: ast.AST, var: str) -> Set[str]:
    out = set()
    for n in walk_scope(fn):
        if isinstance(n, ast.FunctionDef):
            nl = any(isinstance(s, ast.Nonlocal) and var in s.names for s in n.body)
            body = [s for s in n.body if not isinstance(s, (ast.Nonlocal, ast.Expr))]
            if nl and body and _is_cache_loop(ctx, mod, body[-1], var):
                out.add(n.name)
            elif nl and body and len(n.args.args) == 1 and _is_cache_loop(ctx, mod, body[-1], var, n.args.args[0].arg):
                out.add(n.name + "('CACHE')")  # normalises when called with the literal "CACHE"
    return out


def _cached_tests(ctx: Ctx, mod: Mod, node: ast.AST, var: str, cached: Dict[str, int]) -> List[Tuple[ast.AST, str]]:
    """comparisons of code[var] / code[var:...] against a cached opcode inside `node`"""
    out = []
    for n in ast.walk(node):
        if isinstance(n, ast.Compare) and len(n.ops) == 1 and isinstance(n.ops[0], (ast.Eq, ast.NotEq)):
            sides = [n.left, n.comparators[0]]
            for x, y in (sides, sides[::-1]):
                idx_ok = isinstance(x, ast.Subscript) and norm(x.value) == "code" and (
                    norm(x.slice) == var or (isinstance(x.slice, ast.Slice) and x.slice.lower is not None and norm(x.slice.lower) == var))
                if not idx_ok:
                    continue
                for z in ast.walk(y):
                    if isinstance(z, ast.Subscript) and isinstance(z.slice, ast.Constant) and z.slice.value in cached and _is_opmap(ctx, mod, z.value):
                        out.append((n, z.slice.value))
    return out


def opc1_cache_normalisation(ctx: Ctx) -> None:
    mod = ctx.P.mod("_lowlevel")
    fn = mod.fn("currently_exiting_context")
    ctx.R.saw(mod, "currently_exiting_context")
    reach = ctx.reach(mod)
    g = ctx.cfg(fn)
    var = "offs"
    helpers = _normalising_helpers(ctx, mod, fn, var)
    nonlocal_helpers = {n.name for n in walk_scope(fn) if isinstance(n, ast.FunctionDef)
                        and any(isinstance(s, ast.Nonlocal) and var in s.names for s in n.body)}
    total = 0
    for v in sorted(ctx.V.all, key=lambda s: tuple(map(int, s.split(".")))):
        cached = {k: c for k, c in ctx.F["interp"][v]["cache_entries"].items()}
        if not cached:
            continue
        # feasible sub-graph under v
        def feasible(n: Node) -> bool:
            if n.ast is None:
                return True
            return v in reach.live.get(id(n.ast), frozenset({v}))

        def succs(n: Node) -> List[Node]:
            ss = list(n.succ)
            if n.kind in ("if", "while") and n.ast is not None:
                c = ctx.V.cond(n.ast.test, v)
                t, f = g.branch_succs(n)
                if c is True:
                    ss = [x for x in ss if x not in f]
                elif c is False:
                    ss = [x for x in ss if x not in t]
            return [x for x in ss if feasible(x)]

        # forward must-analysis: IN[n] = NORM iff NORM on every feasible path
        IN: Dict[int, str] = {}
        OUT_T: Dict[int, str] = {}
        OUT_F: Dict[int, str] = {}

        def transfer(n: Node, s: str) -> Tuple[str, str]:
            """-> (state on true/normal edges, state on false edges)"""
            a = n.ast
            if a is None:
                return s, s
            if n.kind == "while" and _is_cache_loop(ctx, mod, a, var):
                return s, NORM
            if n.kind in ("if", "while", "for", "with", "try", "handler", "def"):
                # a call of a helper inside the condition
                for c in ast.walk(a.test) if hasattr(a, "test") else []:
                    if isinstance(c, ast.Call) and isinstance(c.func, ast.Name) and c.func.id in nonlocal_helpers:
                        s = NORM if (c.func.id in helpers or (f"{c.func.id}('CACHE')" in helpers and len(c.args) == 1 and norm(c.args[0]) == "'CACHE'")) else RAW
                return s, s
            for x in ast.walk(a):
                if isinstance(x, ast.Name) and x.id == var and isinstance(x.ctx, ast.Store):
                    s = RAW
                if isinstance(x, ast.Call) and isinstance(x.func, ast.Name) and x.func.id in nonlocal_helpers:
                    s = NORM if (x.func.id in helpers or (f"{x.func.id}('CACHE')" in helpers and len(x.args) == 1 and norm(x.args[0]) == "'CACHE'")) else RAW
            return s, s

        work = [g.entry]
        IN[g.entry.idx] = RAW
        while work:
            n = work.pop()
            s = IN[n.idx]
            st, sf = transfer(n, s)
            t, f = g.branch_succs(n) if n.kind in ("if", "while") else ([], [])
            for x in succs(n):
                val = sf if x in f else st
                old = IN.get(x.idx)
                new = val if old is None else (NORM if (old == NORM and val == NORM) else RAW)
                if new != old:
                    IN[x.idx] = new
                    work.append(x)
        for n in g.nodes:
            if n.ast is None or n.idx not in IN or not feasible(n):
                continue
            scope = n.ast.test if n.kind in ("if", "while") else (n.ast if n.kind == "stmt" else None)
            if scope is None:
                continue
            for cmp_node, opn in _cached_tests(ctx, mod, scope, var, cached):
                if v not in reach.live.get(id(cmp_node), frozenset()):
                    continue
                total += 1
                if IN[n.idx] == NORM:
                    ctx.R.ok("OPC-1", f"{v}: {norm(cmp_node)[:70]}", f"{opn} has {cached[opn]} inline cache entr(y/ies); offs is CACHE-normalised on every path")
                else:
                    # find a witness: a RAW-producing node that reaches here without normalisation
                    ctx.R.fail("OPC-1", mod, cmp_node,
                               f"CPython {v}: {opn} carries {cached[opn]} inline CACHE entr(y/ies) and a running frame's f_lasti may rest on one of them "
                               f"(pycore_frame.h: prev_instr 'may be an inline CACHE entry'), but `offs` reaches this test without having skipped CACHE units "
                               f"on some path from `offs = frame.f_lasti`: the {opn} is missed and the exiting context is lost",
                               construct=f"{v}: {norm(cmp_node)}")
    if total < 3:
        raise AnalysisError(f"OPC-1: only {total} cached-opcode tests found (3 confirmed by hand)")


# --------------------------------------------------------------------- INT
def int_intervals(ctx: Ctx) -> None:
    """_parse_exception_table yields an inclusive end; every consumer compares inclusively"""
    mod = ctx.P.mod("_lowlevel")
    pt = mod.fn("_parse_exception_table")
    ctx.R.saw(mod, "_parse_exception_table")
    end_assign = [s for s in ast.walk(pt) if isinstance(s, ast.Assign) and norm(s.targets[0]) == "end"]
    if len(end_assign) != 1:
        raise AnalysisError("INT: `end = ...` in _parse_exception_table vanished")
    inclusive = norm(end_assign[0].value) in ("start + length - 2", "start + (length - 2)", "length + start - 2")
    exclusive = norm(end_assign[0].value) in ("start + length", "length + start")
    if not (inclusive or exclusive):
        raise AnalysisError(f"INT: cannot classify {norm(end_assign[0])}")
    ctx.R.ok("INT", f"producer: {norm(end_assign[0])}", "inclusive" if inclusive else "exclusive")
    m311 = ctx.P.mod("_lowlevel_cpython_311")
    consumers = 0
    for cm, fnname in ((m311, "inspect_frame"), (mod, "currently_exiting_context")):
        fn = cm.fn(fnname)
        ctx.R.saw(cm, fnname)
        for n in ast.walk(fn):
            if isinstance(n, ast.Compare):
                names = [norm(x) for x in [n.left] + n.comparators]
                if len(n.ops) == 2 and names[0] == "start" and names[2] == "end":
                    consumers += 1
                    lo_ok = isinstance(n.ops[0], ast.LtE)
                    hi_ok = isinstance(n.ops[1], ast.LtE) if inclusive else isinstance(n.ops[1], ast.Lt)
                    negated = any(isinstance(a, ast.UnaryOp) and isinstance(a.op, ast.Not) for a in cm.ancestors(n) if isinstance(a, ast.expr))
                    if negated and not isinstance(cm.parent_of(cm.parent_of(n)), ast.If):
                        negated = True
                    if negated:
                        par = [a for a in cm.ancestors(n) if isinstance(a, ast.If)]
                        # `if not (start <= x <= end): break` is a legitimate way to leave a walk; what must not happen is
                        # that the negated test selects the covering entry
                        body_assigns = [norm(x) for x in par[0].body] if par else []
                        if any(b.startswith("handler_depth =") or "FinallyBlock(" in b for b in body_assigns):
                            ctx.R.fail("INT", cm, n, "the coverage test is negated: the handler entry is taken exactly when it does NOT cover the position")
                        else:
                            ctx.R.ok("INT", f"{cm.name}.{fnname}: not ({norm(n)}) leaves the walk")
                    elif lo_ok and hi_ok:
                        ctx.R.ok("INT", f"{cm.name}.{fnname}: {norm(n)}")
                    else:
                        ctx.R.fail("INT", cm, n, f"the exception-table producer yields an {'inclusive' if inclusive else 'exclusive'} end, "
                                   "this consumer compares with a different convention: a position on the boundary is mis-classified "
                                   "(handler depth / active block off by one entry)")
                elif len(n.ops) == 1 and "end" in names and isinstance(n.ops[0], ast.Eq) and fnname == "currently_exiting_context":
                    consumers += 1
                    other = names[1] if names[0] == "end" else names[0]
                    if inclusive and other in ("offs", "offs - 2"):
                        ctx.R.ok("INT", f"{cm.name}.{fnname}: {norm(n)}")
                    else:
                        ctx.R.fail("INT", cm, n, "end-of-range test does not match the inclusive convention of _parse_exception_table")
        # membership in range(start, end[, step]) is a half-open test
        for n in ast.walk(fn):
            if isinstance(n, ast.Compare) and len(n.ops) == 1 and isinstance(n.ops[0], (ast.In, ast.NotIn)) and isinstance(n.comparators[0], ast.Call) \
                    and norm(n.comparators[0].func) == "range" and len(n.comparators[0].args) >= 2 and norm(n.comparators[0].args[0]) == "start" \
                    and "end" in norm(n.comparators[0].args[1]):
                consumers += 1
                upper = norm(n.comparators[0].args[1])
                if inclusive and upper == "end":
                    ctx.R.fail("INT", cm, n, "the exception-table producer yields an inclusive end, but `range(start, end, ...)` excludes it: a position on the last instruction of a table entry "
                               "is treated as uncovered (handler depth 0: a running frame's stack is trimmed to nothing, its contexts are lost)")
                elif inclusive and upper in ("end + 1", "end + 2"):
                    ctx.R.ok("INT", f"{cm.name}.{fnname}: {norm(n)}")
                elif not inclusive and upper == "end":
                    ctx.R.ok("INT", f"{cm.name}.{fnname}: {norm(n)}")
                else:
                    ctx.R.fail("INT", cm, n, "range() bound does not match the interval convention of _parse_exception_table")
    if consumers < 2:
        raise AnalysisError(f"INT: only {consumers} consumers found (4 confirmed by hand)")


# --------------------------------------------------------------------- EXI
def _ctx_constructions(mod: Mod) -> List[ast.Call]:
    out = []
    for n in ast.walk(mod.tree):
        if isinstance(n, ast.Call) and (norm(n.func) in ("Context", "replace")):
            out.append(n)
    return out


def exi1_producers(ctx: Ctx) -> None:
    """both producers append the is_exiting=True context last; nobody else constructs one"""
    mod = ctx.P.mod("_lowlevel")
    producers = {"_contexts_active_by_trickery": 0, "_contexts_active_by_referents": 0}
    for m in ctx.P.analysed_mods():
        for n in ast.walk(m.tree):
            if isinstance(n, ast.keyword) and n.arg == "is_exiting":
                call = m.parent_of(n)
                q = m.qualname_of(call)
                val = n.value
                if isinstance(val, ast.Constant) and val.value is False:
                    continue
                if m.name == "_lowlevel" and q in producers:
                    producers[q] += 1
                    fn = mod.fn(q)
                    # must be ret.append(<this>) and no later ret.append / insert / extend of anything else
                    st = call
                    while not isinstance(st, ast.stmt):
                        st = m.parent_of(st)
                    app = m.parent_of(call)
                    is_append = isinstance(app, ast.Call) and norm(app.func) == "ret.append" and app.args and app.args[0] is call
                    if not is_append:
                        ctx.R.fail("EXI-1", m, st, "the exiting context is not appended to the result list: it must come last")
                        continue
                    g = ctx.cfg(fn)
                    node = g.node_of(st)
                    later = g.reachable_from(node) - {node.idx}
                    bad = None
                    for i in later:
                        a = g.nodes[i].ast
                        if a is None or g.nodes[i].kind != "stmt":
                            continue
                        for c in ast.walk(a):
                            if isinstance(c, ast.Call) and norm(c.func) in ("ret.append", "ret.insert", "ret.extend", "ret.reverse", "ret.sort"):
                                bad = a
                        if isinstance(a, ast.Assign) and norm(a.targets[0]) == "ret":
                            bad = a
                    if bad is not None:
                        ctx.R.fail("EXI-1", m, bad, "the result list is extended or reordered after the exiting context was appended: the exiting context would not be last")
                    else:
                        ctx.R.ok("EXI-1", f"_lowlevel.{q}: {norm(st)[:80]}", "appended last on every path")
                elif m.in_dead_helper(call):
                    ctx.R.ok("EXI-1", f"{m.name}.{q}: helper inlined at every call site", "judged in its callers")
                else:
                    ctx.R.fail("EXI-1", m, call, "a Context with is_exiting set is constructed outside the two producers: consumers rely on 'the exiting context is ret[-1]'")
    # is_exiting may only be set by construction: an in-place store marks an object that other code may share
    for m in ctx.P.analysed_mods():
        for n in ast.walk(m.tree):
            if isinstance(n, ast.Attribute) and n.attr == "is_exiting" and isinstance(n.ctx, ast.Store):
                ctx.R.fail("EXI-1", m, n, "is_exiting is set in place on an existing Context instead of on a fresh copy: the marked object may be a still-active outer manager's entry "
                           "(so that manager is reported as exiting and its obj overwritten) or a shared per-code-object Context (so later extractions see it as exiting)",
                           construct=f"in-place {norm(m.parent_of(n))[:80]}")
    for q, c in producers.items():
        if c != 1:
            raise AnalysisError(f"EXI-1: producer {q} constructs is_exiting contexts {c} times (1 confirmed by hand)")


def exi2_consumers(ctx: Ctx) -> None:
    """every consumer addresses the exiting context as [-1]"""
    sites = 0
    where = [("_lowlevel", "contexts_active_in_frame")]
    mt = ctx.P.mod("_types")
    # every method of the result classes that reads <contexts>[i].is_exiting is a consumer (wherever a refactoring put it)
    for q2, f2 in mt.defs.items():
        if isinstance(f2, (ast.FunctionDef, ast.AsyncFunctionDef)) and any(
                isinstance(x, ast.Attribute) and x.attr == "is_exiting" and isinstance(x.value, ast.Subscript) for x in ast.walk(f2)):
            where.append(("_types", q2))
    for mn, q in where:
        m = ctx.P.mod(mn)
        fn = m.fn(q)
        ctx.R.saw(m, q)
        for n in ast.walk(fn):
            if isinstance(n, ast.Attribute) and n.attr == "is_exiting" and isinstance(n.value, ast.Subscript):
                sites += 1
                sub = n.value
                if norm(sub.slice) == "-1":
                    ctx.R.ok("EXI-2", f"{mn}.{q}: {norm(n)}")
                else:
                    ctx.R.fail("EXI-2", m, n, "the exiting context is by convention the last element; this consumer looks elsewhere")
            # the obj fix-up store
            if isinstance(n, ast.Assign) and isinstance(n.targets[0], ast.Attribute) and n.targets[0].attr == "obj" \
                    and isinstance(n.targets[0].value, ast.Subscript) and q == "contexts_active_in_frame":
                sites += 1
                if norm(n.targets[0].value.slice) == "-1":
                    ctx.R.ok("EXI-2", f"{mn}.{q}: {norm(n.targets[0])} = ...")
                else:
                    ctx.R.fail("EXI-2", m, n, "the exiting manager recovered from the next frame must be stored on the last (exiting) context")
    if sites < 4:
        raise AnalysisError(f"EXI-2: {sites} consumer sites found (4 confirmed by hand)")
    # EXI-2b: the fix-up takes the *first* positional argument of next_inner
    m = ctx.P.mod("_lowlevel")
    fn = m.fn("contexts_active_in_frame")
    # `a, _, _, l = inspect.getargvalues(f)` is the record `args = inspect.getargvalues(f)` read as args.args / args.locals
    unpack: Dict[str, str] = {}
    for a_ in ast.walk(fn):
        if isinstance(a_, ast.Assign) and len(a_.targets) == 1 and isinstance(a_.targets[0], ast.Tuple) and len(a_.targets[0].elts) == 4 and all(isinstance(e_, ast.Name) for e_ in a_.targets[0].elts) \
                and isinstance(a_.value, ast.Call) and norm(a_.value.func) == "inspect.getargvalues":
            for e_, fld in zip(a_.targets[0].elts, ("args", "varargs", "keywords", "locals")):
                if e_.id != "_" and sum(1 for w_ in ast.walk(fn) if isinstance(w_, ast.Name) and w_.id == e_.id and isinstance(w_.ctx, ast.Store)) == 1:
                    unpack[e_.id] = f"args.{fld}"

    def canon(e: ast.AST) -> ast.AST:
        if not unpack:
            return e
        import copy as _copy

        class U(ast.NodeTransformer):
            def visit_Name(self, n_: ast.Name):
                if n_.id in unpack and isinstance(n_.ctx, ast.Load):
                    return ast.copy_location(ast.Attribute(value=ast.Name(id="args", ctx=ast.Load()), attr=unpack[n_.id].split(".")[1], ctx=ast.Load()), n_)
                return n_
        return U().visit(_copy.deepcopy(e))
    for n in ast.walk(fn):
        if isinstance(n, ast.Assign) and isinstance(n.targets[0], ast.Attribute) and n.targets[0].attr == "obj":
            val_ = n.value
            if isinstance(val_, ast.Name):
                # a local assigned once, in the same block, from the value
                ds_ = [a_ for a_ in walk_scope(fn) if isinstance(a_, ast.Assign) and len(a_.targets) == 1 and isinstance(a_.targets[0], ast.Name) and a_.targets[0].id == val_.id]
                if len(ds_) == 1 and guards_of(m, ds_[0], fn) == guards_of(m, n, fn) and ds_[0].lineno < n.lineno:
                    val_ = ds_[0].value
            v = norm(canon(val_))
            if v == "args.locals[args.args[0]]":
                ctx.R.ok("EXI-2", "obj fix-up reads the first positional argument (self) of the next inner frame")
            else:
                ctx.R.fail("EXI-2", m, n, "obj of the exiting context must be the first argument (self) of the __exit__ frame")
            # guarded by exactly `ret and ret[-1].is_exiting and next_inner is not None` (and the callee having a first argument)
            gs = guards_of(m, n, fn)
            gs = [(canon(gx), pol) for gx, pol in gs]
            conj = ast.BoolOp(op=ast.And(), values=[gx if pol else ast.UnaryOp(op=ast.Not(), operand=gx) for gx, pol in gs]) if len(gs) > 1 else (gs[0][0] if gs else ast.Constant(value=True))
            atoms = ["ret", "ret[-1].is_exiting", "next_inner is None", "args.args"]
            from ..util import equivalent
            try:
                okg, cexg = equivalent(conj, lambda e: e[atoms[0]] and e[atoms[1]] and (not e[atoms[2]]) and e[atoms[3]], atoms)
            except AnalysisError as ex:
                okg, cexg = None, str(ex)
            if okg:
                ctx.R.ok("EXI-2", "obj fix-up applies iff there is an exiting context and a next inner frame (with a first argument)")
            elif okg is False:
                extra = {k: v for k, v in (cexg or {}).items() if k not in atoms}
                ctx.R.fail("EXI-2", m, n, "the exiting manager is recovered from the next inner frame under a different condition than 'the last context is exiting and there is a next inner frame': "
                           f"counterexample {cexg}" + (" (an additional test such as the callee's name makes obj stay None for exit functions that are aliased or not literally named __exit__)" if extra else ""),
                           construct="guard of the obj fix-up")
            else:
                ctx.R.undecided("EXI-2", f"guard of the obj fix-up not understood: {cexg}")

    # EXI-2c: once built, the list of active contexts only grows or has fields filled in: no entry is dropped, and managers are
    # never compared by value (`==` runs the observed program's __eq__, and two equal managers -- two Scope("db") dataclasses,
    # a re-entrant manager entered twice -- are still two active contexts)
    for q_ in ("contexts_active_in_frame", "_contexts_active_by_trickery", "_contexts_active_by_referents"):
        if not m.has(q_):
            continue
        f_ = m.fn(q_)
        for n in walk_scope(f_):
            if isinstance(n, ast.Compare) and any(isinstance(o_, (ast.Eq, ast.NotEq, ast.In, ast.NotIn)) for o_ in n.ops) \
                    and any(isinstance(x_, ast.Attribute) and x_.attr == "obj" for x_ in [n.left] + n.comparators):
                ctx.R.fail("EXI-2", m, n, f"{q_}: `{norm(n)[:60]}` compares context managers of the observed program by value: it runs their __eq__ and treats two equal (or one re-entrant, twice "
                           "entered) managers as one -- an active context is dropped or merged", construct=f"{q_}: manager compared by value")
            elif isinstance(n, ast.Assign) and any(isinstance(t_, ast.Subscript) and isinstance(t_.slice, ast.Slice) and norm(t_.value) == "ret" for t_ in n.targets) \
                    and isinstance(n.value, (ast.ListComp, ast.GeneratorExp)) and any(g_.ifs for g_ in n.value.generators):
                ctx.R.fail("EXI-2", m, n, f"{q_}: `{norm(n)[:70]}` filters entries out of the list of active contexts after it was built: a manager that is active is no longer reported",
                           construct=f"{q_}: entries removed from the result")


# --------------------------------------------------------------------- JOIN-1
def _resolve_candidates(fn: ast.AST, e: ast.AST, depth: int = 0) -> List[ast.AST]:
    """what a local expression may evaluate to, through single-name assignments, tuple literals indexed by a constant,
    and attribute reads (None constants are dropped: they cannot be subscripted / carry no manager)"""
    import copy
    if depth > 6:
        return [e]
    if isinstance(e, ast.Name):
        vals = []
        for a in ast.walk(fn):
            if isinstance(a, ast.Assign) and len(a.targets) == 1 and isinstance(a.targets[0], ast.Name) and a.targets[0].id == e.id:
                vals.append(a.value)
            elif isinstance(a, ast.AnnAssign) and isinstance(a.target, ast.Name) and a.target.id == e.id and a.value is not None:
                vals.append(a.value)
            elif isinstance(a, ast.Assign) and len(a.targets) == 1 and isinstance(a.targets[0], ast.Tuple) and isinstance(a.value, ast.Tuple) and len(a.value.elts) == len(a.targets[0].elts):
                for tg, v in zip(a.targets[0].elts, a.value.elts):
                    if isinstance(tg, ast.Name) and tg.id == e.id:
                        vals.append(v)
            elif isinstance(a, ast.Assign) and len(a.targets) == 1 and isinstance(a.targets[0], ast.Tuple):
                for i, tg in enumerate(a.targets[0].elts):
                    if isinstance(tg, ast.Name) and tg.id == e.id:
                        vals.append(ast.Subscript(value=a.value, slice=ast.Constant(value=i), ctx=ast.Load()))
        if not vals:
            return [e]
        out: List[ast.AST] = []
        for v in vals:
            if isinstance(v, ast.Constant) and v.value is None:
                continue
            out += _resolve_candidates(fn, v, depth + 1)
        return out
    if isinstance(e, ast.Subscript) and isinstance(e.slice, ast.Constant) and isinstance(e.slice.value, int):
        out = []
        for c in _resolve_candidates(fn, e.value, depth + 1):
            if isinstance(c, ast.Tuple) and -len(c.elts) <= e.slice.value < len(c.elts):
                out += _resolve_candidates(fn, c.elts[e.slice.value], depth + 1)
            else:
                out.append(ast.Subscript(value=c, slice=e.slice, ctx=ast.Load()))
        return out
    if isinstance(e, ast.Subscript):
        return [ast.Subscript(value=c, slice=e.slice, ctx=ast.Load()) for c in _resolve_candidates(fn, e.value, depth + 1)]
    if isinstance(e, ast.Attribute):
        return [ast.Attribute(value=c, attr=e.attr, ctx=ast.Load()) for c in _resolve_candidates(fn, e.value, depth + 1)]
    return [e]


def join1(ctx: Ctx) -> None:
    mod = ctx.P.mod("_lowlevel")
    fn = mod.fn("_contexts_active_by_trickery")
    ctx.R.saw(mod, "_contexts_active_by_trickery")
    def _flat(body):
        # `with <something>:` blocks are transparent for the order and provenance of these assignments
        for s_ in body:
            if isinstance(s_, ast.With):
                yield from _flat(s_.body)
            else:
                yield s_
    src = {norm(s.targets[0]): s for s in _flat(fn.body) if isinstance(s, ast.Assign) and len(s.targets) == 1}
    need = {
        "with_block_info": "analyze_with_blocks(frame.f_code)",
        "frame_details": "inspect_frame(frame)",
        "exiting": "currently_exiting_context(frame)",
    }
    for k, want in need.items():
        if k not in src:
            raise AnalysisError(f"JOIN-1: `{k} = ...` vanished")
        if norm(src[k].value) != want:
            ctx.R.fail("JOIN-1", mod, src[k], f"{k} must come from {want} on the same frame")
        else:
            ctx.R.ok("JOIN-1", norm(src[k]))
    # with_blocks: blocks of frame_details in the given order filtered by membership
    wb = src.get("with_blocks")
    if wb is None or not isinstance(wb.value, ast.ListComp):
        raise AnalysisError("JOIN-1: with_blocks list comprehension vanished")
    lc = wb.value
    gen = lc.generators[0]
    if norm(gen.iter) == "frame_details.blocks" and norm(lc.elt) == norm(gen.target) and len(gen.ifs) == 1 \
            and norm(gen.ifs[0]) == f"{norm(gen.target)}.handler in with_block_info":
        ctx.R.ok("JOIN-1", norm(wb)[:90], "outermost-first order preserved, filtered by handler membership")
    else:
        ctx.R.fail("JOIN-1", mod, wb, "active with-blocks must be frame_details.blocks in their given (outermost-first) order, filtered by `handler in with_block_info`")
    ret = src.get("ret")
    loop_form = None
    if ret is not None and isinstance(ret.value, ast.ListComp):
        lc = ret.value
        gen = lc.generators[0]
        t = norm(gen.target)
        ok = norm(gen.iter) == "with_blocks" and not gen.ifs and isinstance(lc.elt, ast.Call) and norm(lc.elt.func) == "replace" \
            and norm(lc.elt.args[0]) == f"with_block_info[{t}.handler]"
        objkw = [k for k in lc.elt.keywords if k.arg == "obj"] if isinstance(lc.elt, ast.Call) else []
        ok = ok and len(objkw) == 1 and norm(objkw[0].value) == f"frame_details.stack[{t}.level - 1].__self__"
        if ok:
            ctx.R.ok("JOIN-1", "ret = [replace(with_block_info[b.handler], obj=stack[b.level - 1].__self__) for b in with_blocks]")
        else:
            ctx.R.fail("JOIN-1", mod, ret, "each active block must yield with_block_info[handler] with obj = stack[level - 1].__self__ (the bound __exit__ one below the handler's depth)")
    else:
        # loop form: for b in with_blocks: ... ret.append(replace(with_block_info[b.handler], obj=X))
        loops = [l for l in _flat(fn.body) if isinstance(l, ast.For) and norm(l.iter) == "with_blocks" and isinstance(l.target, ast.Name)]
        if len(loops) != 1:
            raise AnalysisError("JOIN-1: neither the ret list comprehension nor a loop over with_blocks found (the join was restructured; ALIAS-1 / EXI-1 still apply)")
        loop_form = loops[0]
        t = loop_form.target.id
        apps = [c for c in ast.walk(loop_form) if isinstance(c, ast.Call) and norm(c.func) == "ret.append" and c.args and isinstance(c.args[0], ast.Call) and norm(c.args[0].func) == "replace"]
        if len(apps) != 1:
            raise AnalysisError("JOIN-1: the loop over with_blocks does not append exactly one replace(...) per block")
        rp = apps[0].args[0]
        objkw = [k for k in rp.keywords if k.arg == "obj"]
        want = f"frame_details.stack[{t}.level - 1].__self__"
        cands = [norm(c) for c in _resolve_candidates(loop_form, objkw[0].value)] if objkw else []
        if norm(rp.args[0]) == f"with_block_info[{t}.handler]" and cands and all(c == want for c in cands):
            ctx.R.ok("JOIN-1", f"for {t} in with_blocks: ret.append(replace(with_block_info[{t}.handler], obj=stack[{t}.level - 1].__self__))")
        elif norm(rp.args[0]) == f"with_block_info[{t}.handler]" and cands and any(c == want for c in cands):
            ctx.R.undecided("JOIN-1", f"obj of an active block may be any of {cands}")
        else:
            ctx.R.fail("JOIN-1", mod, apps[0], "each active block must yield with_block_info[handler] with obj = stack[level - 1].__self__ (the bound __exit__ one below the handler's depth)")
    # NAME-1: the manager is identified by its position on the value stack, never by the *name* of the method found there
    scope = loop_form if loop_form is not None else fn
    for n in ast.walk(scope):
        isname = (isinstance(n, ast.Attribute) and n.attr == "__name__") or \
                 (isinstance(n, ast.Call) and norm(n.func) == "getattr" and len(n.args) >= 2 and isinstance(n.args[1], ast.Constant) and n.args[1].value == "__name__")
        if not isname:
            continue
        if any(isinstance(a, (ast.Raise, ast.JoinedStr)) or (isinstance(a, ast.Call) and norm(a.func).startswith("warnings.")) for a in mod.ancestors(n)):
            continue  # diagnostics only
        ctx.R.fail("NAME-1", mod, n, "the trickery path reads the __name__ of what it finds on the value stack: a bound method's __name__ is the name of its function, not of the attribute it was "
                   "looked up as, so a manager whose exit method is an alias (`__exit__ = close`, `__aexit__ = aclose`) or an unwrapped decorator is rejected or dropped", construct="exit method identified by __name__")
        break
    else:
        ctx.R.ok("NAME-1", "the trickery path identifies managers by stack position only (no __name__ test)")
    # no result is returned before the exit analysis was consulted: a manager suspended in its own __exit__ / __aexit__ has
    # already lost its block, so "no blocks" does not mean "no contexts"
    g_ = ctx.cfg(fn)
    ex_st = src.get("exiting")
    if ex_st is not None:
        en = g_.node_of(ex_st)
        for r_ in [x for x in ast.walk(fn) if isinstance(x, ast.Return) and mod.enclosing_def(x) is fn]:
            rn = g_.node_of(r_)
            if not g_.all_paths_pass(g_.entry, {rn.idx}, {en.idx}):
                conds = [norm(gx)[:50] for gx, pol in guards_of(mod, r_, fn)]
                ctx.R.fail("JOIN-1", mod, r_, f"`{norm(r_)[:40]}` (under {conds}) returns before currently_exiting_context(frame) was consulted: a frame suspended inside the __exit__ / __aexit__ of its only "
                           "open with-block has no block left, and its exiting context is silently dropped", construct="return before the exit analysis")
                break
        else:
            ctx.R.ok("JOIN-1", "every return of the trickery path has consulted the exit analysis")
    # exiting entry
    found = False
    for n in ast.walk(fn):
        if isinstance(n, ast.Call) and norm(n.func) == "ret.append" and isinstance(n.args[0], ast.Call) and norm(n.args[0].func) == "replace" \
                and ("exiting" in norm(n.args[0].args[0]) or any(k.arg == "is_exiting" for k in n.args[0].keywords)):
            found = True
            inner = n.args[0]
            if norm(inner.args[0]) == "with_block_info[exiting.cleanup_offset]":
                ctx.R.ok("JOIN-1", norm(n)[:90])
            else:
                ctx.R.fail("JOIN-1", mod, n, "the exiting entry must be looked up by exiting.cleanup_offset")
            gl = guards_of(mod, n, fn)
            # ExitingContext is a plain record (no __bool__ / __len__): its truth value is "is not None"
            ec = [c_ for c_ in mod.tree.body if isinstance(c_, ast.ClassDef) and c_.name == "ExitingContext"]
            plain = len(ec) == 1 and not any(isinstance(m_, ast.FunctionDef) and m_.name in ("__bool__", "__len__") for m_ in ec[0].body) \
                and not any("Tuple" in norm(b_) or "tuple" in norm(b_) for b_ in ec[0].bases)

            class _T(ast.NodeTransformer):
                def visit_Name(self, x: ast.Name):
                    return ast.Compare(left=ast.Name(id="exiting", ctx=ast.Load()), ops=[ast.IsNot()], comparators=[ast.Constant(value=None)]) if x.id == "exiting" and plain else x

                def visit_Compare(self, x: ast.Compare):
                    return x
            import copy as _copy
            parts_ = [_T().visit(_copy.deepcopy(g)) if pol else ast.UnaryOp(op=ast.Not(), operand=_T().visit(_copy.deepcopy(g))) for g, pol in gl]
            from ..util import equivalent as _equiv
            okg = None
            if parts_:
                try:
                    okg = _equiv(parts_[0] if len(parts_) == 1 else ast.BoolOp(op=ast.And(), values=parts_), lambda e_: not e_["exiting is None"], ["exiting is None"])[0]
                except AnalysisError:
                    okg = None
            if okg is None and parts_ and not any("exiting" in norm(g) for g, _ in gl) and all(isinstance(g, ast.Constant) for g, _ in gl):
                ctx.R.fail("JOIN-1", mod, n, "the exiting entry must be appended iff `exiting is not None`; it is appended unconditionally")
            elif okg is None and parts_:
                ctx.R.undecided("JOIN-1", f"guard of the exiting entry not understood: {[norm(g)[:40] for g, _ in gl]}")
            elif not okg:
                ctx.R.fail("JOIN-1", mod, n, "the exiting entry must be appended iff `exiting is not None`")
    if not found:
        raise AnalysisError("JOIN-1: exiting append vanished")


def alias1(ctx: Ctx) -> None:
    """ALIAS-1 partial Contexts of analyze_with_blocks are copied before use"""
    mod = ctx.P.mod("_lowlevel")
    fn = mod.fn("_contexts_active_by_trickery")
    n_reads = 0
    # the tables: every local bound (directly or by tuple unpacking) from analyze_with_blocks or from a package function
    # that calls it (a memoising front end, ...)
    def _is_table_source(c: ast.AST) -> bool:
        if not isinstance(c, ast.Call):
            return False
        cal = ctx.P.resolve_call(mod, c)
        if cal.kind != "pkg":
            return False
        q = cal.name.split(".")[-1]
        if q == "analyze_with_blocks":
            return True
        if mod.has(q):
            return any(isinstance(x, ast.Call) and ctx.P.resolve_call(mod, x).is_pkg("_lowlevel", "analyze_with_blocks") for x in ast.walk(mod.fn(q)))
        return False
    tables: Set[str] = set()
    for a in ast.walk(fn):
        if isinstance(a, ast.Assign) and len(a.targets) == 1 and _is_table_source(a.value):
            tg = a.targets[0]
            if isinstance(tg, ast.Name):
                tables.add(tg.id)
            elif isinstance(tg, ast.Tuple):
                tables |= {e.id for e in tg.elts if isinstance(e, ast.Name)}
    if not tables:
        raise AnalysisError("ALIAS-1: _contexts_active_by_trickery no longer binds the result of analyze_with_blocks")
    # ALIAS-1: the per-code-object partial Contexts are never handed out or mutated: every read of
    # <table>[...] is the first argument of replace(...)
    for n in ast.walk(fn):
        if isinstance(n, ast.Subscript) and norm(n.value) in tables and isinstance(n.ctx, ast.Load):
            n_reads += 1
            par = mod.parent_of(n)
            if isinstance(par, ast.Call) and norm(par.func) in ("replace", "dataclasses.replace") and par.args and par.args[0] is n:
                ctx.R.ok("ALIAS-1", f"{norm(n)} is copied with replace() before use")
            elif isinstance(par, ast.Assign) and len(par.targets) == 1 and isinstance(par.targets[0], ast.Name):
                # bound to a name: every later use of the name must be a read-only attribute access or replace(name, ...)
                v = par.targets[0].id
                bad = None
                for u in ast.walk(fn):
                    if isinstance(u, ast.Name) and u.id == v and isinstance(u.ctx, ast.Load):
                        up = mod.parent_of(u)
                        if isinstance(up, ast.Attribute) and isinstance(up.ctx, ast.Load):
                            continue
                        if isinstance(up, ast.Call) and norm(up.func) in ("replace", "dataclasses.replace") and up.args and up.args[0] is u:
                            continue
                        bad = up
                if bad is None:
                    ctx.R.ok("ALIAS-1", f"{norm(n)} (as `{v}`) is only read and copied with replace()")
                else:
                    ctx.R.fail("ALIAS-1", mod, bad, f"`{v}` is a partial Context taken from analyze_with_blocks' result and is used without being copied by replace(): the object handed out or mutated is the analysis' own, "
                               "so obj / is_exiting written into it leak into other results (and into any cache of the analysis)", construct=f"uncopied use of {norm(n)}: {norm(_stmt(mod, bad))[:80]}")
            else:
                ctx.R.fail("ALIAS-1", mod, n, "a partial Context taken from analyze_with_blocks' result is used without being copied by replace(): the returned/mutated object is the analysis' own, "
                           "so obj / is_exiting written into it later leak into other results (and into any cache of the analysis)", construct=f"uncopied {norm(n)} in {norm(_stmt(mod, n))[:80]}")
        if isinstance(n, ast.Subscript) and norm(n.value) == "with_block_info" and isinstance(n.ctx, (ast.Store, ast.Del)):
            ctx.R.fail("ALIAS-1", mod, n, "_contexts_active_by_trickery writes into the result of analyze_with_blocks")
    if n_reads < 2:
        raise AnalysisError("ALIAS-1: reads of with_block_info[...] vanished")


# --------------------------------------------------------------------- LINE-1 / FALL-1
def line1(ctx: Ctx) -> None:
    mod = ctx.P.mod("_lowlevel")
    fn = mod.fn("analyze_with_blocks")
    loops = [n for n in walk_scope(fn) if isinstance(n, ast.For) and "insns" in norm(n.iter)]
    if len(loops) != 1:
        raise AnalysisError("LINE-1: instruction loop of analyze_with_blocks not found")
    loop = loops[0]
    first = loop.body[0]
    ok = isinstance(first, ast.If) and "starts_line is not None" in norm(first.test) and len(first.body) == 1 \
        and norm(first.body[0]).startswith("current_line = ") and "starts_line" in norm(first.body[0])
    if ok:
        ctx.R.ok("LINE-1", "current_line is updated from insn.starts_line before the with-opcode tests of the same iteration")
    else:
        ctx.R.fail("LINE-1", mod, first, "the instruction loop must update current_line from insn.starts_line before testing for with-opcodes: "
                   "otherwise start_line of a with statement that starts a new line is the previous statement's line")
    n = 0
    for c in ast.walk(loop):
        if isinstance(c, ast.Call) and norm(c.func) == "Context":
            n += 1
            kw = {k.arg: norm(k.value) for k in c.keywords}
            if kw.get("start_line") != "current_line":
                ctx.R.fail("LINE-1", mod, c, "start_line of the partial Context must be current_line")
            elif kw.get("varname") != "store_to":
                ctx.R.fail("LINE-1", mod, c, "varname of the partial Context must be the decoded store target")
            elif kw.get("obj") != "None":
                ctx.R.fail("LINE-1", mod, c, "partial Context must have obj=None")
            else:
                ctx.R.ok("LINE-1", norm(c)[:100])
    if n < 1:
        raise AnalysisError("LINE-1: Context constructions in analyze_with_blocks not found")
    # is_async agrees with the opcode
    for c in ast.walk(loop):
        if isinstance(c, ast.Compare) and len(c.ops) == 1 and isinstance(c.ops[0], ast.Eq) and norm(c.left) == "insn.opname" \
                and isinstance(c.comparators[0], ast.Constant):
            par = mod.parent_of(c)
            if isinstance(par, (ast.keyword, ast.Assign)):
                tgt = par.arg if isinstance(par, ast.keyword) else norm(par.targets[0])
                if tgt == "is_async":
                    if "ASYNC" in c.comparators[0].value and not any(isinstance(a, ast.UnaryOp) for a in mod.ancestors(c) if isinstance(a, ast.expr)):
                        ctx.R.ok("LINE-1", f"is_async = ({norm(c)})")
                    else:
                        ctx.R.fail("LINE-1", mod, c, "is_async must be true exactly for the ASYNC with-opcode")
        if isinstance(c, ast.Compare) and len(c.ops) == 1 and isinstance(c.ops[0], ast.NotEq) and norm(c.left) == "insn.opname" \
                and isinstance(c.comparators[0], ast.Constant) and "WITH" in str(c.comparators[0].value):
            par = mod.parent_of(c)
            tgt = par.arg if isinstance(par, ast.keyword) else (norm(par.targets[0]) if isinstance(par, ast.Assign) else None)
            if tgt == "is_async":
                opn = c.comparators[0].value
                if "ASYNC" in opn:
                    ctx.R.fail("LINE-1", mod, c, f"is_async is computed as `opname != {opn!r}`: it is true for synchronous with statements and false for async ones")
    # OPC-7: every with-opcode branch records its Context in the result map under the handler offset
    for br, names in _with_branches(ctx, mod, fn):
        stores = [x for x in ast.walk(br) if isinstance(x, ast.Assign) and isinstance(x.targets[0], ast.Subscript) and norm(x.targets[0].value) == "with_block_info"
                  and any(x is y for b in br.body for y in ast.walk(b))]
        if stores and all(isinstance(x.value, ast.Call) and norm(x.value.func) == "Context" for x in stores) and all(norm(x.targets[0].slice) == "cleanup_offset" for x in stores):
            ctx.R.ok("LINE-1", f"branch {names}: with_block_info[cleanup_offset] = Context(...)")
        elif not stores and br.body and (lambda g_, all_st: bool(all_st) and g_.all_paths_pass(g_.node_of(br.body[0]), {g_.node_of(loop).idx, g_.exit.idx}, {g_.node_of(x).idx for x in all_st}))(
                ctx.cfg(fn), [x for x in ast.walk(loop) if isinstance(x, ast.Assign) and isinstance(x.targets[0], ast.Subscript) and norm(x.targets[0].value) == "with_block_info"
                              and isinstance(x.value, ast.Call) and norm(x.value.func) == "Context" and norm(x.targets[0].slice) == "cleanup_offset"]):
            ctx.R.ok("LINE-1", f"branch {names}: every path from it to the next instruction passes with_block_info[cleanup_offset] = Context(...) (shared tail)")
        elif not stores:
            ctx.R.fail("LINE-1", mod, br, f"the branch handling {names} never records a Context in with_block_info: no with block is recognised on the interpreters that use these opcodes",
                       construct=f"branch {names}: no with_block_info store")


def fall1(ctx: Ctx) -> None:
    mod = ctx.P.mod("_lowlevel")
    fn = mod.fn("_contexts_active_by_trickery")
    found = False
    for c_ in ast.walk(fn):
        if isinstance(c_, ast.Call) and norm(c_.func) == "replace" and c_.args \
                and any(k.arg == "varname" for k in c_.keywords):
            found = True
            n = c_
            kwv = [k for k in c_.keywords if k.arg == "varname"][0]
            gs = guards_of(mod, n, fn)
            conj: List[str] = []
            def _negnone(d_: ast.AST) -> Optional[str]:
                if isinstance(d_, ast.Compare) and len(d_.ops) == 1 and isinstance(d_.ops[0], (ast.Is, ast.IsNot)) and isinstance(d_.comparators[0], ast.Constant) and d_.comparators[0].value is None:
                    return f"{norm(d_.left)} {'is not' if isinstance(d_.ops[0], ast.Is) else 'is'} None"
                return None
            for g, pol in gs:
                if pol and isinstance(g, ast.BoolOp) and isinstance(g.op, ast.And):
                    conj += [norm(x) for x in g.values]
                elif pol:
                    conj.append(norm(g))
                else:
                    # not (A or B)  ==  not A and not B
                    conj += [x for x in (_negnone(d_) for d_ in (g.values if isinstance(g, ast.BoolOp) and isinstance(g.op, ast.Or) else [g])) if x]
            # early returns before the statement: `if A or B: return <unchanged>` contributes not A, not B
            st_ = n
            while not isinstance(st_, ast.stmt):
                st_ = mod.parent_of(st_)
            par_ = mod.parent_of(st_)
            sibs = getattr(par_, "body", []) if st_ in getattr(par_, "body", []) else []
            for sb in sibs[:sibs.index(st_)] if sibs else []:
                if isinstance(sb, ast.If) and not sb.orelse and sb.body and isinstance(sb.body[-1], (ast.Return, ast.Continue)):
                    for d_ in (sb.test.values if isinstance(sb.test, ast.BoolOp) and isinstance(sb.test.op, ast.Or) else [sb.test]):
                        if isinstance(d_, ast.Compare) and len(d_.ops) == 1 and isinstance(d_.ops[0], (ast.Is, ast.IsNot)) and isinstance(d_.comparators[0], ast.Constant) and d_.comparators[0].value is None:
                            conj.append(f"{norm(d_.left)} {'is not' if isinstance(d_.ops[0], ast.Is) else 'is'} None")
            t = norm(c_.args[0])
            if f"{t}.varname is None" in conj and f"{t}.obj is not None" in conj:
                ctx.R.ok("FALL-1", "local-name fallback only for entries with obj is not None and varname is None")
            else:
                ctx.R.fail("FALL-1", mod, n, "the local-name fallback must apply only when the decoder produced no name (varname is None) and the manager is known (obj is not None): "
                           "otherwise a correct `as` target is overwritten by an unrelated local's name")
            if norm(kwv.value) == f"locals_by_id.get(id({t}.obj))":
                ctx.R.ok("FALL-1", "fallback looks the manager up by identity")
            else:
                ctx.R.fail("FALL-1", mod, n, "fallback name must be looked up by id() of the manager object (identity, not equality)")
    if not found:
        raise AnalysisError("FALL-1: fallback assignment vanished")
    # locals_by_id is keyed by id(value)
    ok = False
    for n in ast.walk(fn):
        if isinstance(n, ast.Assign) and norm(n.targets[0]) == "locals_by_id[id(value)]" and norm(n.value) == "name":
            ok = True
        # {id(value): name for name, value in frame.f_locals.items()}
        if isinstance(n, ast.Assign) and norm(n.targets[0]) == "locals_by_id" and isinstance(n.value, ast.DictComp) and len(n.value.generators) == 1 \
                and isinstance(n.value.generators[0].target, ast.Tuple) and len(n.value.generators[0].target.elts) == 2 and norm(n.value.generators[0].iter).endswith("f_locals.items()"):
            nm_, val_ = (norm(e) for e in n.value.generators[0].target.elts)
            if norm(n.value.key) == f"id({val_})" and norm(n.value.value) == nm_:
                ok = True
    if ok:
        ctx.R.ok("FALL-1", "locals_by_id[id(value)] = name")
    else:
        ctx.R.fail("FALL-1", mod, fn, "locals_by_id must map id(value) -> name", construct="locals_by_id construction")


# --------------------------------------------------------------------- OPC-5 version coverage of opcode tests
class _Abs(ast.NodeTransformer):
    def visit_Name(self, node: ast.Name) -> ast.AST:
        return ast.copy_location(ast.Name(id="_", ctx=node.ctx), node) if node.id not in ("op", "dis", "bytes", "len") else node

    def visit_Attribute(self, node: ast.Attribute) -> ast.AST:
        if node.attr == "opmap" and isinstance(node.value, ast.Name) and node.value.id == "dis":
            return ast.copy_location(ast.Name(id="op", ctx=ast.Load()), node)  # `op` is the conventional alias of dis.opmap
        if node.attr in ("opname", "opmap", "hasjabs", "hasjrel"):
            return ast.copy_location(ast.Attribute(value=self.visit(node.value) if not isinstance(node.value, ast.Name) or node.value.id != "dis" else node.value, attr=node.attr, ctx=node.ctx), node)
        return ast.copy_location(ast.Name(id="_", ctx=ast.Load()), node)


def _abstract(n: ast.AST) -> str:
    import copy
    return norm(ast.fix_missing_locations(_Abs().visit(copy.deepcopy(n))))


def _unalias(m: Mod, cmp_: ast.Compare) -> ast.AST:
    """`x = code[offs]` ... `x == op[...]`: a local bound exactly once to a subscript of the bytecode is replaced by that subscript
    (reading the opcode into a local first does not change which test is made)"""
    import copy
    fn = m.enclosing_def(cmp_)
    if fn is None:
        return cmp_
    names = {x.id for x in ast.walk(cmp_) if isinstance(x, ast.Name)}
    sub: Dict[str, ast.AST] = {}
    for nm in names:
        asg = [a for a in walk_scope(fn) if isinstance(a, (ast.Assign, ast.AnnAssign, ast.AugAssign, ast.For, ast.NamedExpr)) and any(isinstance(t, ast.Name) and t.id == nm and isinstance(t.ctx, ast.Store)
                                                                                                                              for t in ast.walk(a.target if not isinstance(a, ast.Assign) else ast.Tuple(elts=a.targets, ctx=ast.Store())))]
        if len(asg) == 1 and isinstance(asg[0], ast.Assign) and len(asg[0].targets) == 1 and isinstance(asg[0].targets[0], ast.Name) and isinstance(asg[0].value, ast.Subscript) \
                and isinstance(asg[0].value.value, ast.Name) and not isinstance(asg[0].value.slice, ast.Slice) and nm not in {a.arg for a in fn.args.args + fn.args.kwonlyargs}:
            sub[nm] = asg[0].value
    if not sub:
        return cmp_

    class S(ast.NodeTransformer):
        def visit_Name(self, x: ast.Name):
            return copy.deepcopy(sub[x.id]) if x.id in sub and isinstance(x.ctx, ast.Load) else x
    return S().visit(copy.deepcopy(cmp_))


def opcode_test_table(ctx: Ctx) -> Dict[str, List[str]]:
    """every comparison against an opcode in the low-level modules -> versions under which it is reachable"""
    table: Dict[str, Set[str]] = {}
    for mn in ("_lowlevel", "_lowlevel_cpython_310", "_lowlevel_cpython_311"):
        m = ctx.P.mod(mn)
        reach = ctx.reach(m)
        for n in ast.walk(m.tree):
            if isinstance(n, ast.Compare):
                has = False
                for x in ast.walk(n):
                    if isinstance(x, ast.Subscript) and isinstance(x.slice, ast.Constant) and isinstance(x.slice.value, str) and _is_opmap(ctx, m, x.value):
                        has = True
                    if isinstance(x, ast.Attribute) and x.attr == "opname":
                        has = True
                if has:
                    # keyed by module and the comparison with every variable name abstracted away (moving code into a
                    # helper or renaming `offs` keeps the key; which offset relative to the position is compared stays visible)
                    key = f"{mn}: {_abstract(_unalias(m, n))}"
                    table.setdefault(key, set()).update(reach.live.get(id(n), frozenset()))
    return {k: sorted(v) for k, v in table.items()}


def opc5_version_coverage(ctx: Ctx) -> None:
    """OPC-5 an opcode test that was reachable under interpreter V on the reference tree is still reachable under V
    (a per-opcode f_lasti / bytecode-shape convention must not silently stop being handled on one interpreter)"""
    import json
    import os
    path = os.path.join(os.path.dirname(os.path.dirname(os.path.abspath(__file__))), "data", "opcode_tests.json")
    ref = json.load(open(path))
    cur = opcode_test_table(ctx)
    missing = []
    for key, want in ref.items():
        if not want:
            continue  # dead on every supported interpreter already (3.8 arm)
        if key not in cur:
            missing.append(key)
            continue
        lost = sorted(set(want) - set(cur[key]))
        mn = key.split(":")[0]
        mod = ctx.P.mod(mn)
        if lost:
            node = None
            for n in ast.walk(mod.tree):
                if isinstance(n, ast.Compare) and f"{mn}: {_abstract(n)}" == key:
                    node = n
            ctx.R.fail("OPC-5", mod, node, f"the opcode test `{key.split(': ', 1)[1][:80]}` was reachable under CPython {want} and is now reachable only under {cur[key]}: "
                       f"the bytecode / f_lasti convention it handles is no longer handled on {lost} (no test on the 3.12-only suite can notice)",
                       construct=f"{key.split(': ', 1)[1][:100]} lost {lost}")
        else:
            ctx.R.ok("OPC-5", key[:110], f"reachable under {cur[key]}")
    if missing:
        # the comparison was rewritten (== merged into `in`, moved behind a predicate helper, ...): fall back to the opcode
        # names it mentions -- each must still be tested somewhere in the module under every interpreter it was tested under
        import re as _re
        coarse: Dict[str, Dict[str, Set[str]]] = {}
        for mn in ("_lowlevel", "_lowlevel_cpython_310", "_lowlevel_cpython_311"):
            m = ctx.P.mod(mn)
            reach = ctx.reach(m)
            for n in ast.walk(m.tree):
                if isinstance(n, (ast.Compare, ast.Call)):
                    names = {x.value for x in ast.walk(n) if isinstance(x, ast.Constant) and isinstance(x.value, str) and _re.fullmatch(r"[A-Z][A-Z_0-9]+", x.value)}
                    for a in names:
                        coarse.setdefault(mn, {}).setdefault(a, set()).update(reach.live.get(id(n), frozenset()))
        still = []
        for key in missing:
            mn = key.split(":")[0]
            names = _re.findall(r"'([A-Z][A-Z_0-9]+)'", key)
            want = set(ref[key])
            if names and all(want <= coarse.get(mn, {}).get(a, set()) for a in names):
                ctx.R.ok("OPC-5", key[:110], f"rewritten; every opcode it names is still tested under {sorted(want)}")
            else:
                still.append(key)
        gone = []
        for key in list(still):
            mn = key.split(":")[0]
            names = _re.findall(r"'([A-Z][A-Z_0-9]+)'", key)
            m = ctx.P.mod(mn)
            mentioned = {x.value for x in ast.walk(m.tree) if isinstance(x, ast.Constant) and isinstance(x.value, str)}
            lost_names = [a for a in names if a not in mentioned]
            if lost_names:
                # positive evidence: the opcode is not named anywhere in the module any more, so no rewritten form of the test can exist
                still.remove(key)
                gone.append((key, lost_names))
                ctx.R.fail("OPC-5", m, None, f"the opcode test `{key.split(': ', 1)[1][:80]}` (reachable under CPython {ref[key]} on the reference tree) is gone and {lost_names} "
                           f"is no longer named anywhere in stackscope.{mn}: the bytecode shape it distinguished is now treated like every other instruction on {ref[key]}",
                           construct=f"{key.split(': ', 1)[1][:100]} removed", qualname=f"{mn}")
        if still:
            raise AnalysisError(f"OPC-5: {len(still)} reference opcode test(s) are no longer present in any recognisable form, e.g. `{still[0][:100]}`: cannot decide version coverage for them")


# --------------------------------------------------------------------- OPC-10 handler paths are queued with the block not yet pushed
def opc10_handler_queue_order(ctx: Ctx) -> None:
    """OPC-10 in the control-flow walk of currently_exiting_context (CPython < 3.11) the target of a SETUP_* instruction (its
    handler) is queued with the block stack as it is *before* the new block is pushed (the handler is entered with that
    block already popped): within one iteration no path leads from the push of the SETUP_* block to the queuing of the
    relative-jump target"""
    mod = ctx.P.mod("_lowlevel")
    fn = mod.fn("currently_exiting_context")
    loops = [l for l in ast.walk(fn) if isinstance(l, ast.While) and norm(l.test) == "todo"]
    if len(loops) != 1:
        _undecided_or_deferred(ctx, "OPC-10", "the `while todo` walk was not found")
        return
    loop = loops[0]
    g = ctx.cfg(fn)

    def guarded_by(st: ast.AST, word: str) -> bool:
        return any(word in norm(gx) for gx, pol in guards_of(mod, st, fn) if pol)

    pushes = []
    for st in ast.walk(loop):
        if not isinstance(st, ast.stmt) or not guarded_by(st, "SETUP_FINALLY"):
            continue
        if isinstance(st, ast.Expr) and isinstance(st.value, ast.Call) and norm(st.value.func) == "stack.append":
            pushes.append(st)
        elif isinstance(st, ast.AugAssign) and norm(st.target) == "stack":
            pushes.append(st)
        elif isinstance(st, ast.Assign) and norm(st.targets[0]) == "stack":
            pushes.append(st)
    queues = [st for st in ast.walk(loop) if isinstance(st, ast.Expr) and isinstance(st.value, ast.Call) and norm(st.value.func) == "todo.append" and guarded_by(st, "hasjrel")]
    if not pushes or not queues:
        _undecided_or_deferred(ctx, "OPC-10", f"block push ({len(pushes)}) / relative-jump queuing ({len(queues)}) not found in the walk")
        return
    header = g.node_of(loop)
    bad = None
    for p_ in pushes:
        reach_ = g.reachable_from(g.node_of(p_), avoid={header.idx})
        for q_ in queues:
            if g.node_of(q_).idx in reach_ and g.node_of(q_).idx != g.node_of(p_).idx:
                bad = (p_, q_)
    if bad:
        ctx.R.fail("OPC-10", mod, bad[1], f"the relative-jump target (for a SETUP_* instruction: its handler) is queued at line {bad[1].lineno} after the new block was pushed at line {bad[0].lineno}: the handler "
                   "path starts with its own block as a stale top entry, so a POP_BLOCK reached through it resolves to the wrong (inner) with-block: wrong start_line / varname / is_async for an exiting context on 3.9 / 3.10",
                   construct="SETUP_* handler queued with the block already pushed")
    else:
        ctx.R.ok("OPC-10", "the SETUP_* handler is queued with the block stack as it was before the push")


# --------------------------------------------------------------------- OPC-9 UNPACK_EX oparg decoding
class _StopEval(BaseException):
    def __init__(self, k):
        self.k = k


def opc3c_prologue_eval(ctx: Ctx) -> None:
    """OPC-3c for every with-statement layout each compiler emits (FACTS: prologues, 30-34 layouts per interpreter, each sync and
    async) the instruction loop of analyze_with_blocks hands describe_assignment_target exactly the index of the first
    instruction after the prologue.  The loop body is evaluated (engine MINI) under that interpreter's sys.version_info on a
    synthetic instruction list: some leading instructions, the layout's prologue (also with one and two EXTENDED_ARG prefixes
    in front of its LOAD_CONST -- a code object whose None constant has index >= 256), a store.  Leading instructions include an
    EXTENDED_ARG four places before the with-opcode, which only an async prologue may look at"""
    from types import SimpleNamespace as NS
    from ..minieval import Mini, Raised, Unsupported
    mod = ctx.P.mod("_lowlevel")
    fn = mod.fn("analyze_with_blocks")
    loops = [l for l in walk_scope(fn) if isinstance(l, ast.For) and any(isinstance(n, ast.If) and any(x in ("SETUP_WITH", "BEFORE_WITH") for _, nm in opname_literals(n.test) for x in nm) for n in ast.walk(l))]
    if len(loops) != 1 or not (isinstance(loops[0].target, ast.Tuple) and len(loops[0].target.elts) == 2):
        ctx.R.undecided("OPC-3c", "the instruction loop of analyze_with_blocks was not found as `for idx, insn in enumerate(insns)`")
        return
    loop = loops[0]
    ivar, nvar = norm(loop.target.elts[0]), norm(loop.target.elts[1])
    helpers = {h.name: h for h in mod.tree.body if isinstance(h, ast.FunctionDef) and h.name not in ("describe_assignment_target", "_parse_exception_table")}
    n_ok = 0
    for v in sorted(ctx.V.all, key=lambda s_: tuple(map(int, s_.split(".")))):
        IF = ctx.F["interp"][v]
        vi = tuple(IF["version_info"])
        for key, variants in sorted(IF["prologues"].items()):
            for seq in variants:
                for n_ext in (0, 1, 2):
                    if n_ext and "LOAD_CONST" not in seq:
                        continue
                    pro = []
                    for o_ in seq:
                        if o_ == "LOAD_CONST":
                            pro.extend(["EXTENDED_ARG"] * n_ext)
                        pro.append(o_)
                    for pre in (["RESUME", "LOAD_NAME", "PUSH_NULL", "NOP"], ["EXTENDED_ARG", "LOAD_NAME", "NOP", "NOP"]):
                        names = pre + pro + ["STORE_FAST", "NOP", "NOP", "LOAD_CONST", "RETURN_VALUE"]
                        insns = [NS(opname=o_, offset=2 * i, starts_line=None, argval=2 * len(names), arg=0, argrepr="", is_jump_target=False) for i, o_ in enumerate(names)]
                        idx = len(pre)

                        def stop(_insns, k):
                            raise _StopEval(k)
                        env = {"sys": NS(version_info=vi, implementation=NS(name="cpython")), "insns": insns, ivar: idx, nvar: insns[idx], "start_to_handler": [0] * (2 * len(names) + 2),
                               "with_block_info": [0] * (4 * len(names) + 4), "current_line": -1, "code": NS()}
                        m = Mini(env, dict(helpers), {"describe_assignment_target": stop, "len": len})
                        _module_prelude(m, mod)
                        got = None
                        try:
                            for st in loop.body:
                                m.stmt(st)
                        except _StopEval as e_:
                            got = e_.k
                        except (Unsupported, Raised) as ex:
                            ctx.R.undecided("OPC-3c", f"{v} {key}: the loop body is outside the evaluator's fragment: {ex}")
                            return
                        want = idx + len(pro)
                        if got == want:
                            n_ok += 1
                        else:
                            what = "no with-statement is recognised at all" if got is None else f"index +{got - idx} is decoded as the start of the `as` target"
                            ctx.R.fail("OPC-3c", mod, loop, f"CPython {v}, layout {key}" + (f" with {n_ext} EXTENDED_ARG before LOAD_CONST None" if n_ext else "") + (", an EXTENDED_ARG four places before the with-opcode" if pre[0] == "EXTENDED_ARG" else "")
                                       + f": the compiler's prologue is {pro} ({len(pro)} instructions), so the `as` target starts at +{len(pro)}; {what}: varname / the handler the block is keyed by are taken from the wrong instruction",
                                       construct=f"{v} {key}: target at +{None if got is None else got - idx} instead of +{len(pro)}")
                            return
    if n_ok < 100:
        raise AnalysisError(f"OPC-3c: only {n_ok} layouts evaluated")
    ctx.R.ok("OPC-3c", f"{n_ok} (interpreter, layout, EXTENDED_ARG count, leading context) cases: the `as` target is decoded from the first instruction after the prologue", "engine MINI over FACTS prologues")


def _undecided_or_deferred(ctx: Ctx, rule: str, msg: str) -> None:
    """a table rule about the 3.9 / 3.10 exit path that cannot read the code's shape: if the whole function still evaluates on
    every observed exit site of those interpreters and resolves each one (OPC-16), the shape rule is recorded as not applied
    rather than undecided -- the stronger check has spoken.  Otherwise undecided, as before"""
    n = _walk_covered_by_sites(ctx)
    if n is not None:
        ctx.R.ok(rule, f"not applied to this shape ({msg[:90]})", f"deferred to OPC-16: currently_exiting_context evaluated on {n} observed 3.9 / 3.10 exit sites, all resolve")
    else:
        ctx.R.undecided(rule, msg)


def _opc12_block_walk_table(ctx: Ctx) -> None:
    """OPC-12 the control-flow walk that finds the handler of a POP_BLOCK (CPython 3.9 / 3.10; never entered by the 3.12 suite) as a
    table.  One iteration of `while todo:` is evaluated under every assignment of the conditions it tests (already visited /
    absolute jump / relative jump / SETUP_* / POP_BLOCK / the POP_BLOCK looked for / unconditional transfer); its effects are
    read as: mark visited; queue(target, block stack as it is *then*); push a handler; pop a block; return the innermost
    handler.  Targets are compared numerically (offs, arg and the jump multiplier are given distinct values), so any way of
    writing `offs + 2 + arg * jmul` will do.  Required: visited -> nothing; otherwise mark; absolute jump -> queue(arg*jmul);
    relative jump -> queue(offs+2+arg*jmul) with the stack *before* a SETUP_* push of that same address; POP_BLOCK -> return
    stack[-1] if it is the one looked for, else pop; unless an unconditional transfer -> queue(offs+2) with the stack as left"""
    from ..stepper import Stepper, enumerate_table
    from ..emit import Unsupported as EUnsupported
    from ..minieval import Mini, Unsupported as MUnsupported, Raised
    mod = ctx.P.mod("_lowlevel")
    fn = mod.fn("currently_exiting_context")
    loops = [l for l in walk_scope(fn) if isinstance(l, ast.While) and norm(l.test) in ("todo", "len(todo) > 0", "len(todo)", "todo != []")]
    if len(loops) != 1:
        _undecided_or_deferred(ctx, "OPC-12", f"{len(loops)} `while todo` loops found (1 expected)")
        return
    loop = loops[0]
    # canonical names for the walk's variables (a helper inlined by the normaliser, or a rename, keeps the roles)
    import copy as _copy
    ren: Dict[str, str] = {}
    for a in loop.body:
        if isinstance(a, ast.Assign) and len(a.targets) == 1 and isinstance(a.targets[0], ast.Tuple) and len(a.targets[0].elts) == 2 and isinstance(a.value, ast.Call) \
                and norm(a.value.func) in ("todo.popleft", "todo.pop") and all(isinstance(x, ast.Name) for x in a.targets[0].elts):
            ren[a.targets[0].elts[0].id] = "offs"
            ren[a.targets[0].elts[1].id] = "stack"
    inv = {v_: k_ for k_, v_ in ren.items()}
    for a in loop.body:
        if isinstance(a, ast.Assign) and len(a.targets) == 1 and isinstance(a.targets[0], ast.Name) and isinstance(a.value, ast.Subscript) and norm(a.value.value) == "code" \
                and inv.get("offs", "offs") in norm(a.value.slice):
            ren[a.targets[0].id] = "arg"
    for a in ast.walk(fn):
        if isinstance(a, ast.Assign) and len(a.targets) == 1 and isinstance(a.targets[0], ast.Name) and isinstance(a.value, ast.IfExp) and "version_info" in norm(a.value.test) \
                and sorted(norm(x) for x in (a.value.body, a.value.orelse)) == ["1", "2"]:
            ren[a.targets[0].id] = "jmul"
    if set(ren.values()) != {"offs", "stack", "arg", "jmul"}:
        _undecided_or_deferred(ctx, "OPC-12", f"the walk's variables were not all recognised (found {sorted(ren.values())})")
        return
    if any(k_ != v_ for k_, v_ in ren.items()):
        class _RN(ast.NodeTransformer):
            def visit_Name(self, n_: ast.Name):
                return ast.copy_location(ast.Name(id=ren.get(n_.id, n_.id), ctx=n_.ctx), n_)
        loop = ast.fix_missing_locations(_RN().visit(_copy.deepcopy(loop)))
    VAL = {"offs": 100, "arg": 7, "jmul": 3}

    def num(e: ast.AST) -> Optional[int]:
        try:
            v = Mini(dict(VAL)).expr(e)
            return v if isinstance(v, int) and not isinstance(v, bool) else None
        except (MUnsupported, Raised):
            return None

    def role(atom: str) -> Optional[str]:
        if " in seen" in atom or atom.startswith("seen"):
            return "SEEN"
        if "hasjabs" in atom:
            return "JABS"
        if "hasjrel" in atom:
            return "JREL"
        if "SETUP_WITH" in atom or "SETUP_FINALLY" in atom:
            return "SETUP"
        if "pop_block_offs" in atom:
            return "TARGET"
        if "POP_BLOCK" in atom:
            return "POPB"
        if "RETURN_VALUE" in atom or "JUMP_FORWARD" in atom or "JUMP_ABSOLUTE" in atom:
            return "UNCOND"
        return None

    def run(assign):
        st = Stepper(assign)
        st.opaque = {"arg", "stack"}
        st.on_loop = lambda l_, env_: None      # the EXTENDED_ARG accumulation is decided separately below
        k, v = st.run(loop.body, {})
        # the block stack may be mutated in place (seen by every alias of that list object) or rebound to a new list
        cur = 0
        depths = {0: 0}
        out = []
        for ef in st.effects:
            try:
                e = ast.parse(ef, mode="eval").body
            except SyntaxError:
                try:
                    e = ast.parse(ef).body[0]
                except SyntaxError:
                    out.append(("?", ef[:50]))
                    continue
            t = norm(e)
            if isinstance(e, ast.Call) and norm(e.func) == "seen.add":
                out.append(("mark",))
            elif isinstance(e, ast.Call) and norm(e.func) in ("todo.append", "todo.appendleft") and len(e.args) == 1 and isinstance(e.args[0], ast.Tuple) and len(e.args[0].elts) == 2:
                tgt, stk = e.args[0].elts
                copyform = norm(stk) in ("stack[:]", "stack.copy()", "list(stack)", "stack[::]", "[*stack]")
                if not copyform and norm(stk) != "stack":
                    out.append(("?", t[:50]))
                else:
                    out.append(("queue", num(tgt), depths[cur] if copyform else ("obj", cur)))
                    if not copyform and num(tgt) != VAL["offs"] + 2:
                        aliased_jumps.append(t[:60])
            elif isinstance(e, ast.Call) and norm(e.func) == "stack.append" and len(e.args) == 1:
                depths[cur] += 1
                out.append(("push", num(e.args[0])))
            elif isinstance(e, ast.Call) and norm(e.func) == "stack.pop" and not e.args:
                depths[cur] -= 1
                out.append(("pop",))
            elif isinstance(e, ast.Assign) and len(e.targets) == 1 and norm(e.targets[0]) == "stack":
                v_ = e.value
                new_obj = len(depths)
                if isinstance(v_, ast.BinOp) and isinstance(v_.op, ast.Add) and norm(v_.left) in ("stack", "stack[:]", "list(stack)") and isinstance(v_.right, ast.List) and len(v_.right.elts) == 1:
                    depths[new_obj] = depths[cur] + 1
                    cur = new_obj
                    out.append(("push", num(v_.right.elts[0])))
                elif isinstance(v_, ast.List) and len(v_.elts) == 2 and isinstance(v_.elts[0], ast.Starred) and norm(v_.elts[0].value) == "stack":
                    depths[new_obj] = depths[cur] + 1
                    cur = new_obj
                    out.append(("push", num(v_.elts[1])))
                elif norm(v_) in ("stack[:]", "stack.copy()", "list(stack)", "[*stack]"):
                    depths[new_obj] = depths[cur]
                    cur = new_obj
                elif norm(v_) in ("stack[:-1]", "stack[:len(stack) - 1]"):
                    depths[new_obj] = depths[cur] - 1
                    cur = new_obj
                    out.append(("pop",))
                else:
                    out.append(("?", t[:50]))
            elif isinstance(e, (ast.Assign, ast.AnnAssign)) or t.startswith(("arg =", "(offs, stack) =", "offs, stack =")) or isinstance(e, ast.AugAssign):
                continue      # reading the queue entry / the instruction's argument
            else:
                out.append(("?", t[:50]))
        out = [(x[0], x[1], depths[x[2][1]] if isinstance(x[2], tuple) else x[2]) if x[0] == "queue" else x for x in out]
        res = k
        if k == "return" and v is not None:
            res = "return " + ("stack[-1]" if isinstance(v, ast.Call) and any(k_.arg == "cleanup_offset" and norm(k_.value) == "stack[-1]" for k_ in v.keywords) else norm(v)[:40])
        return tuple(out), res

    aliased_jumps: List[str] = []
    try:
        atoms, rows = enumerate_table(run, [], max_atoms=9)
    except EUnsupported as ex:
        _undecided_or_deferred(ctx, "OPC-12", f"the walk's loop body is outside the step interpreter: {ex}")
        return
    inplace = [c for c in ast.walk(loop) if (isinstance(c, ast.Call) and isinstance(c.func, ast.Attribute) and norm(c.func.value) == "stack" and c.func.attr in ("append", "pop", "insert", "extend", "clear", "remove"))
               or (isinstance(c, ast.AugAssign) and norm(c.target) == "stack") or (isinstance(c, ast.Delete) and any(norm(getattr(t_, "value", t_)) == "stack" for t_ in c.targets))]
    if aliased_jumps and inplace:
        ctx.R.fail("OPC-12", mod, loops[0], f"a jump target is queued with the block-stack list itself (`{aliased_jumps[0]}`) while the walk also changes that list in place (`{norm(inplace[0])[:40]}`): the path that "
                   "falls through keeps using the same list object, so a POP_BLOCK or SETUP_* it meets later changes the stack the queued branch will start from; the two arms of a conditional jump "
                   "share one block stack and the handler found for a POP_BLOCK is another block's (or the list is empty: IndexError)", construct="block walk: jump target queued with an aliased block stack")
        return
    roles = {a: role(a) for a in atoms}
    if None in roles.values() or len(set(roles.values())) != len(roles):
        _undecided_or_deferred(ctx, "OPC-12", f"conditions of the walk not recognised: {[a for a, r in roles.items() if r is None] or list(roles)}")
        return
    if not {"SEEN", "JABS", "JREL", "SETUP", "POPB", "TARGET", "UNCOND"} <= set(roles.values()):
        _undecided_or_deferred(ctx, "OPC-12", f"the walk tests only {sorted(roles.values())}")
        return
    o, a_, j = VAL["offs"], VAL["arg"], VAL["jmul"]
    bad = None
    for assign, (effects, res) in rows:
        r = {roles[k]: v for k, v in assign.items()}
        if r["SEEN"]:
            want_e, want_r = (), "continue"
        else:
            w = [("mark",)]
            d = 0
            if r["JABS"]:
                w.append(("queue", a_ * j, 0))
            if r["JREL"]:
                w.append(("queue", o + 2 + a_ * j, 0))
                if r["SETUP"]:
                    w.append(("push", o + 2 + a_ * j))
                    d += 1
            want_r = "fall"
            if r["POPB"]:
                if r["TARGET"]:
                    want_r = "return stack[-1]"
                else:
                    w.append(("pop",))
                    d -= 1
            if want_r == "fall" and not r["UNCOND"]:
                w.append(("queue", o + 2, d))
            want_e = tuple(w)
        if any(x[0] == "?" for x in effects):
            _undecided_or_deferred(ctx, "OPC-12", f"an effect of the walk is not understood: {[x for x in effects if x[0] == '?'][0][1]}")
            return
        if (effects, res) != (want_e, want_r) and bad is None:
            bad = (r, effects, res, want_e, want_r)
    if bad is None:
        ctx.R.ok("OPC-12", f"one iteration of the block walk under {len(rows)} combinations of {sorted(roles.values())}", "visited / queue(target, stack then) / push / pop / return innermost handler as required")
    else:
        r, effects, res, want_e, want_r = bad
        shown = sorted(k for k, v in r.items() if v)
        ctx.R.fail("OPC-12", mod, loops[0], f"block walk (CPython 3.9 / 3.10), instruction that is {shown or 'none of the tested kinds'} with offs={o}, arg={a_}, jump multiplier {j}: the iteration does {list(effects)} and ends "
                   f"`{res}`; required {list(want_e)} and `{want_r}` (queue(target, depth of the block stack handed on), push(handler address)): the handler found for a POP_BLOCK -- i.e. which with-block "
                   "a normal-path __exit__ belongs to -- is wrong or never found on these interpreters", construct=f"block walk, case {shown}")
    # the instruction argument with EXTENDED_ARG prefixes: evaluated on [EXTENDED_ARG 1, EXTENDED_ARG 2, <op> 3]
    pre = [s_ for s_ in loop.body if (isinstance(s_, ast.Assign) and norm(s_.targets[0]) == "arg") or (isinstance(s_, ast.While) and "EXTENDED_ARG" in norm(s_.test))]
    if len(pre) == 2:
        EXT = 144
        env = {"code": [EXT, 1, EXT, 2, 9, 3, 0, 0], "offs": 0, "op": {"EXTENDED_ARG": EXT}}
        try:
            m = Mini(env, {}, {})
            m.env["op"] = None
            # op[...] subscripts: substitute the constant
            class _Op(ast.NodeTransformer):
                def visit_Subscript(self, n_):
                    if (norm(n_.value) in ("op", "dis.opmap", "opmap") or _is_opmap(ctx, mod, n_.value)) and isinstance(n_.slice, ast.Constant):
                        return ast.Constant(value=EXT if n_.slice.value == "EXTENDED_ARG" else -1)
                    return self.generic_visit(n_)
            import copy as _copy
            for s_ in pre:
                m.stmt(ast.fix_missing_locations(_Op().visit(_copy.deepcopy(s_))))
            got = (m.env.get("arg"), m.env.get("offs"))
            if got == ((1 << 16) | (2 << 8) | 3, 4):
                ctx.R.ok("OPC-12", "EXTENDED_ARG prefixes: arg accumulates big-endian and offs ends on the instruction itself")
            else:
                ctx.R.fail("OPC-12", mod, pre[0], f"on [EXTENDED_ARG 1, EXTENDED_ARG 2, <op> 3] the walk computes (arg, offs) = {got}; the instruction's argument is {(1 << 16) | (2 << 8) | 3} and it sits at offset 4: "
                           "jump targets of instructions with extended arguments are wrong", construct="EXTENDED_ARG accumulation in the block walk")
        except (MUnsupported, Raised) as ex:
            _undecided_or_deferred(ctx, "OPC-12", f"EXTENDED_ARG accumulation not evaluable: {ex}")
    else:
        _undecided_or_deferred(ctx, "OPC-12", "the argument / EXTENDED_ARG accumulation statements of the walk were not found")


def opc14_async_position_310(ctx: Ctx) -> None:
    """OPC-14 position normalisation for `async with` exits on CPython 3.9 / 3.10 (code the 3.12 suite never enters), as a table
    over A = "the position is a YIELD_FROM", B = "there is an instruction after the next one", C = "the next instruction is a
    YIELD_FROM": the exit is an async one iff A or (B and C) (a suspended await rests on the YIELD_FROM under the PyPy
    convention and on the LOAD_CONST before it under CPython's), and the position is moved back by one instruction iff A"""
    from ..stepper import Stepper, enumerate_table
    from ..emit import Unsupported as EUnsupported
    mod = ctx.P.mod("_lowlevel")
    fn = mod.fn("currently_exiting_context")
    reach = ctx.reach(mod)
    cands = [n for n in fn.body if isinstance(n, ast.If) and "sys.version_info" in norm(n.test) and any("YIELD_FROM" in norm(x) for x in ast.walk(n))]
    if len(cands) != 1:
        _undecided_or_deferred(ctx, "OPC-14", f"{len(cands)} version branches mention YIELD_FROM at the top level of currently_exiting_context (1 expected)")
        return
    node = cands[0]
    arm = None
    for body in (node.body, node.orelse):
        if body and {"3.9", "3.10"} <= set(reach.live.get(id(body[0]), frozenset())) and "3.11" not in reach.live.get(id(body[0]), frozenset()):
            arm = body
    if arm is None:
        _undecided_or_deferred(ctx, "OPC-14", "no arm of the YIELD_FROM branch is reachable exactly under 3.9 / 3.10")
        return

    def role(atom: str) -> Optional[str]:
        t = atom.replace(" ", "")
        if t.startswith("code[offs]==") and "YIELD_FROM" in t:
            return "A"
        if t.startswith("code[offs+2]==") and "YIELD_FROM" in t:
            return "C"
        if "len(code)" in t and "offs+2" in t:
            return "B"
        return None

    def run(assign):
        st = Stepper(assign)
        st.opaque = {"is_async", "offs"}
        k, v = st.run(arm, {})
        return tuple(st.effects), k

    try:
        atoms, rows = enumerate_table(run, [], max_atoms=6)
    except EUnsupported as ex:
        _undecided_or_deferred(ctx, "OPC-14", f"outside the step interpreter: {ex}")
        return
    roles = {a: role(a) for a in atoms}
    if None in roles.values() or "A" not in roles.values() or len(set(roles.values())) != len(roles):
        _undecided_or_deferred(ctx, "OPC-14", f"conditions not recognised: {atoms}")
        return
    import itertools as _it
    missing = sorted({"A", "B", "C"} - set(roles.values()))
    rows = [(dict(assign, **dict(zip(["~" + m_ for m_ in missing], extra))), res) for assign, res in rows for extra in _it.product([False, True], repeat=len(missing))]
    roles.update({"~" + m_: m_ for m_ in missing})      # a condition the code does not test: the outcome must be right for both of its values
    for assign, (effects, k) in rows:
        r = {roles[a]: v for a, v in assign.items()}
        want_async = r["A"] or (r["B"] and r["C"])
        want_back = r["A"]
        got_async = any(e_.replace(" ", "") == "is_async=True" for e_ in effects)
        backs = [e_ for e_ in effects if e_.replace(" ", "").startswith("offs")]
        got_back = [e_.replace(" ", "") for e_ in backs] == ["offs-=2"] if backs else False
        odd = [e_ for e_ in backs if e_.replace(" ", "") != "offs-=2"] or [e_ for e_ in effects if not e_.replace(" ", "").startswith(("offs", "is_async"))]
        if odd or k != "fall":
            _undecided_or_deferred(ctx, "OPC-14", f"effect `{(odd or [k])[0]}` not understood")
            return
        if (got_async, got_back) != (want_async, want_back):
            ctx.R.fail("OPC-14", mod, node, f"CPython 3.9 / 3.10, position {'on' if r['A'] else 'not on'} a YIELD_FROM, next instruction {'is' if r['C'] else 'is not'} a YIELD_FROM"
                       f"{'' if r['B'] else ' (no such instruction)'}: is_async becomes {got_async} and the position {'moves' if got_back else 'does not move'} back; required is_async={want_async}, "
                       f"{'one instruction back' if want_back else 'no move'}: __aexit__ calls are not recognised (or ordinary exits are taken for awaits) on these interpreters", construct="3.9/3.10 async position table")
            return
    ctx.R.ok("OPC-14", f"3.9 / 3.10: is_async iff YIELD_FROM here or next; one step back iff here ({len(rows)} combinations)")


def _module_prelude(m, mod: Mod) -> None:
    """give an evaluator the module-level constants a function may name: plain `NAME = <value>` statements, also inside the arm
    of a module-level `if sys.version_info ...:` that the evaluator's sys.version_info selects (definitions in those arms are
    left alone).  What cannot be evaluated is skipped: a function that needs it is then outside the fragment (undecided), never
    mis-evaluated"""
    from ..minieval import Raised, Unsupported

    def run(stmts) -> None:
        for a_ in stmts:
            if isinstance(a_, (ast.Assign, ast.AnnAssign)) and isinstance(a_.targets[0] if isinstance(a_, ast.Assign) else a_.target, ast.Name) and getattr(a_, "value", None) is not None \
                    and norm(a_.targets[0] if isinstance(a_, ast.Assign) else a_.target) not in fixed:
                try:
                    m.stmt(a_)
                except (Unsupported, Raised, Exception):
                    pass
            elif isinstance(a_, ast.If) and "sys.version_info" in norm(a_.test) and "sys" in m.env:
                try:
                    t_ = m.truth(m.expr(a_.test))
                except (Unsupported, Raised, Exception):
                    continue
                run(a_.body if t_ else a_.orelse)
    fixed = set(m.env)
    run(mod.tree.body)


def opc15_exit_sites(ctx: Ctx) -> None:
    """OPC-15 which with-block a normal-path __exit__ / __aexit__ call belongs to, on CPython 3.11+.  FACTS (exit_sites): for 19
    single-with function shapes per interpreter (body falling off its end, return, break / continue, and bodies *ending* in a
    try/except, try/finally, loop, if, ...) the compiled bytecode, its exception table, every normal-path exit call site and
    the offset of the with-block's own handler (PUSH_EXC_INFO; WITH_EXCEPT_START).  currently_exiting_context is evaluated
    (engine MINI: the whole function body, frame.f_lasti at the call -- for async exits at the SEND and at the YIELD_VALUE) and
    must return that handler with the right is_async.  This is the rule that states finding F2: for bodies that end in a
    compound statement the exception-table entry ending just before the exit call is an inner one"""
    from types import SimpleNamespace as NS
    from ..minieval import Mini, Raised, Unsupported, _Return
    mod = ctx.P.mod("_lowlevel")
    fn = mod.fn("currently_exiting_context")
    n_ok = 0
    # the exception-table entries are 5-tuples; if the module gives them field names (a typing.NamedTuple of five fields that
    # _parse_exception_table yields), the stand-in entries carry the same names
    entry_type = lambda *x: tuple(x)
    pet = [f_ for f_ in ast.walk(mod.tree) if isinstance(f_, ast.FunctionDef) and f_.name == "_parse_exception_table"]
    for cd in ast.walk(mod.tree):
        if isinstance(cd, ast.ClassDef) and any(norm(b_).split(".")[-1] == "NamedTuple" for b_ in cd.bases):
            flds = [a_.target.id for a_ in cd.body if isinstance(a_, ast.AnnAssign) and isinstance(a_.target, ast.Name)]
            if len(flds) == 5 and pet and any(isinstance(c_, ast.Call) and norm(c_.func) == cd.name for c_ in ast.walk(pet[0])):
                import collections as _collections
                entry_type = _collections.namedtuple(cd.name.lstrip("_") or "Entry", flds, rename=True)
    for v in sorted(ctx.V.all, key=lambda s_: tuple(map(int, s_.split(".")))):
        IF = ctx.F["interp"][v]
        shapes = IF.get("exit_sites")
        if not shapes:
            continue
        omap = IF["opmap"]
        for name, sh in sorted(shapes.items()):
            if not sh["sites"]:
                continue
            # the exception route: the frame is at the handler's WITH_EXCEPT_START (for an async with: in the await that follows it).
            # Ground truth by construction: the handler of a with statement starts PUSH_EXC_INFO; WITH_EXCEPT_START (FACTS with_handler_prefix)
            cc_ = list(sh["co_code"])
            exc_sites = []
            for hd, asy in sorted({(st_["handler"], st_["is_async"]) for st_ in sh["sites"]}):
                if hd + 3 < len(cc_) and cc_[hd] == omap.get("PUSH_EXC_INFO") and cc_[hd + 2] == omap["WITH_EXCEPT_START"]:
                    if not asy:
                        exc_sites.append({"handler": hd, "is_async": False, "exc": [("WITH_EXCEPT_START", hd + 2)]})
                    elif cc_[hd + 4] == omap["GET_AWAITABLE"]:
                        ps, q_ = [], hd + 6
                        while q_ < min(len(cc_), hd + 30) and len(ps) < 2:
                            if cc_[q_] == omap["SEND"] and not ps:
                                ps.append(("send after WITH_EXCEPT_START", q_))
                            elif cc_[q_] == omap["YIELD_VALUE"] and ps:
                                ps.append(("yield_value after WITH_EXCEPT_START", q_))
                            q_ += 2
                        if len(ps) == 2:
                            exc_sites.append({"handler": hd, "is_async": True, "exc": ps})
            for site in list(sh["sites"]) + exc_sites:
                sh = dict(sh, handler=site["handler"], is_async=site["is_async"])
                positions = site["exc"] if "exc" in site else [("call", site["call"])] if not sh["is_async"] else [("send", site["send"]), ("yield_value", site["yield_value"])]
                for pname, pos in positions:
                    warned: List[str] = []
                    code_obj = NS(co_code=list(sh["co_code"]), co_consts=[None if x else 0 for x in sh["consts_none"]], co_name=name)
                    env = {"frame": NS(f_lasti=pos, f_code=code_obj), "dis": NS(opmap=dict(omap), hasjabs=[], hasjrel=[]), "sys": NS(version_info=tuple(IF["version_info"]), implementation=NS(name="cpython")),
                           "warnings": NS(warn=lambda *a, **k: warned.append("warn")), "InspectionWarning": "InspectionWarning", "types": NS()}
                    ext = {"bytes": lambda x: list(x), "ExitingContext": lambda **k: NS(**k), "_parse_exception_table": lambda c_, _e=sh["entries"]: [entry_type(*x) for x in _e], "len": len}
                    m = Mini(env, {}, ext, fuel=20000)
                    _module_prelude(m, mod)
                    res = "fell off"
                    try:
                        for st in fn.body:
                            m.stmt(st)
                    except _Return as r:
                        res = r.value
                    except Raised as ex:
                        res = f"raises {ex.kind}"
                    except Unsupported as ex:
                        ctx.R.undecided("OPC-15", f"{v} {name}: currently_exiting_context is outside the evaluator's fragment: {ex}")
                        return
                    got = (getattr(res, "cleanup_offset", None), getattr(res, "is_async", None)) if isinstance(res, NS) else res
                    want = (sh["handler"], sh["is_async"])
                    if got == want:
                        n_ok += 1
                        ctx.R.ok("OPC-15", f"{v} {name} ({pname} at {pos}): handler {sh['handler']}", "FACTS exit_sites")
                    else:
                        what = f"returns handler offset {got[0]} (is_async={got[1]})" if isinstance(got, tuple) else ("returns None" + (" after a warning" if warned else "") if res is None else str(res))
                        ctx.R.fail("OPC-15", mod, fn, f"CPython {v}, with-body shape `{name}`, frame inside the {'exception-route' if 'exc' in site else 'normal-path'} exit call ({pname} at offset {pos}): currently_exiting_context {what}; the with-block's "
                                   f"handler is at {sh['handler']} (is_async={sh['is_async']}): the exiting manager is attributed to the wrong block or lost (KeyError in the trickery path -> InspectionWarning and "
                                   "fallback)", construct=f"{v}: exit site of shape {name} ({pname})")
    if n_ok < 20:
        raise AnalysisError(f"OPC-15: only {n_ok} exit sites resolved correctly; the evaluation is probably not reaching the matcher")


def _sites_310(ctx: Ctx):
    """evaluate currently_exiting_context at every observed 3.9 / 3.10 exit site (cached per run) ->
    {"results": [(version, shape, site, got, warned)], "unsupported": str | None}"""
    cache = getattr(ctx, "_sites310", None)
    if cache is not None:
        return cache
    from types import SimpleNamespace as NS
    from ..minieval import Mini, Raised, Unsupported, _Return
    mod = ctx.P.mod("_lowlevel")
    fn = mod.fn("currently_exiting_context")
    out = {"results": [], "unsupported": None}
    for v in sorted(ctx.V.all, key=lambda s_: tuple(map(int, s_.split(".")))):
        IF = ctx.F["interp"][v]
        shapes = IF.get("exit_sites_observed")
        if not shapes:
            continue
        omap = IF["opmap"]
        for name, sh in sorted(shapes.items()):
            for site in sh["sites"]:
                warned: List[str] = []
                code_obj = NS(co_code=list(sh["co_code"]), co_consts=[None if x else 0 for x in sh["consts_none"]], co_name=name)
                env = {"frame": NS(f_lasti=site["pos"], f_code=code_obj), "dis": NS(opmap=dict(omap), hasjabs=[omap[x] if isinstance(x, str) else x for x in IF["hasjabs"]], hasjrel=[omap[x] if isinstance(x, str) else x for x in IF["hasjrel"]]),
                       "sys": NS(version_info=tuple(IF["version_info"]), implementation=NS(name="cpython")), "collections": NS(deque=lambda x=(): list(x)),
                       "warnings": NS(warn=lambda *a, **k: warned.append("warn")), "InspectionWarning": "InspectionWarning", "types": NS()}
                ext = {"bytes": lambda x: list(x), "ExitingContext": lambda **k: NS(**k), "len": len}
                m = Mini(env, {}, ext, fuel=400000)
                _module_prelude(m, mod)
                res = "fell off"
                try:
                    for st in fn.body:
                        if isinstance(st, ast.Assign) and isinstance(st.value, ast.Subscript) and norm(st.value.value) in ("List", "Dict", "Tuple", "Deque", "Set", "Optional"):
                            continue    # a local type alias (BlockStack = List[int])
                        m.stmt(st)
                except _Return as r:
                    res = r.value
                except Raised as ex:
                    res = f"raises {ex.kind}"
                except Unsupported as ex:
                    out["unsupported"] = f"{v} {name}: currently_exiting_context is outside the evaluator's fragment: {ex}"
                    ctx._sites310 = out
                    return out
                got = (getattr(res, "cleanup_offset", None), getattr(res, "is_async", None)) if isinstance(res, NS) else res
                out["results"].append((v, name, site, got, bool(warned), res))
    ctx._sites310 = out
    return out


def _walk_covered_by_sites(ctx: Ctx) -> Optional[int]:
    """number of observed 3.9 / 3.10 exit sites, if the whole function evaluates and every one of them resolves to its handler"""
    ev = _sites_310(ctx)
    if ev["unsupported"] or not ev["results"]:
        return None
    if all(got == (site["handler"], site["is_async"]) for _, _, site, got, _, _ in ev["results"]):
        return len(ev["results"])
    return None


def opc16_exit_sites_310(ctx: Ctx) -> None:
    """OPC-16 the same question as OPC-15 for CPython 3.9 / 3.10, where the answer comes from the POP_BLOCK walk -- code the 3.12
    suite never runs.  FACTS (exit_sites_observed): each of the 30 shapes is *run* by that interpreter with recording context
    managers; for every normal-path exit the facts hold the position of the leaving frame as seen from inside __exit__ /
    __aexit__ (and, for async exits, the position at which the coroutine is suspended) and the handler of the block that manager
    entered (the target of its SETUP_WITH / SETUP_ASYNC_WITH) -- the interpreter's own word on which block an exit belongs to.
    currently_exiting_context is evaluated (engine MINI, whole function, including the block-stack walk) at each recorded
    position and must return that handler and is_async"""
    from types import SimpleNamespace as NS
    mod = ctx.P.mod("_lowlevel")
    fn = mod.fn("currently_exiting_context")
    ev = _sites_310(ctx)
    if ev["unsupported"]:
        ctx.R.undecided("OPC-16", ev["unsupported"])
        return
    n_ok = 0
    for v, name, site, got, warned, res in ev["results"]:
        want = (site["handler"], site["is_async"])
        if got == want:
            n_ok += 1
            ctx.R.ok("OPC-16", f"{v} {name} ({site['kind']} at {site['pos']}): handler {site['handler']}", "FACTS exit_sites_observed")
        else:
            what = f"returns handler offset {got[0]} (is_async={got[1]})" if isinstance(got, tuple) else ("returns None" + (" after a warning" if warned else "") if res is None else str(res))
            ctx.R.fail("OPC-16", mod, fn, f"CPython {v}, with-body shape `{name}`, frame leaving the block normally ({site['kind']}, position {site['pos']} as the interpreter reported it): "
                       f"currently_exiting_context {what}; the block that manager entered has its handler at {site['handler']} (is_async={site['is_async']}): the exiting manager is attributed to the wrong "
                       "block or lost on this interpreter", construct=f"{v}: observed exit of shape {name} ({site['kind']} at {site['pos']})")
    n_all = len(ev["results"])
    if n_all and n_ok < n_all // 2:
        raise AnalysisError(f"OPC-16: only {n_ok} of {n_all} observed exit sites resolve; the evaluation is probably not reaching the matcher")
    if not n_all:
        raise AnalysisError("OPC-16: no observed exit sites in the facts")


def opc13_exception_path_exit(ctx: Ctx) -> None:
    """OPC-13 the exception-path exit: a frame whose position is the WITH_EXCEPT_START of a with-block's handler is exiting that
    block, and the block is identified by the handler's first instruction.  FACTS (with_handler_prefix): the handler starts
    with WITH_EXCEPT_START itself on 3.9 / 3.10 and with PUSH_EXC_INFO, WITH_EXCEPT_START on 3.11+.  So under each interpreter
    a positive test `code[offs] == op['WITH_EXCEPT_START']` guards `return ExitingContext(..., cleanup_offset=offs)` after
    stepping back exactly over the prefix (0 / 2 bytes)"""
    mod = ctx.P.mod("_lowlevel")
    fn = mod.fn("currently_exiting_context")
    reach = ctx.reach(mod)
    for v in sorted(ctx.V.all, key=lambda s_: tuple(map(int, s_.split(".")))):
        pref = ctx.F["interp"][v]["with_handler_prefix"]
        if not pref or any(p_ != pref[0] for p_ in pref):
            ctx.R.undecided("OPC-13", f"{v}: with-handler prefix not unique in the facts: {pref}")
            continue
        want_back = 2 * (len(pref[0]) - 1)
        ifs = []
        for n in ast.walk(fn):
            if isinstance(n, ast.If) and v in reach.live.get(id(n), frozenset()):
                for cc in ast.walk(n.test):
                    if isinstance(cc, ast.Compare) and len(cc.ops) == 1 and "WITH_EXCEPT_START" in [x.slice.value for x in ast.walk(cc) if isinstance(x, ast.Subscript) and isinstance(x.slice, ast.Constant) and isinstance(x.slice.value, str)] \
                            and norm(_unalias(mod, cc).left) == "code[offs]":
                        ifs.append((n, cc))
        if not ifs:
            ctx.R.undecided("OPC-13", f"{v}: no test of code[offs] against WITH_EXCEPT_START is reachable (see OPC-5)")
            continue
        for n, cc in ifs:
            neg = isinstance(cc.ops[0], (ast.NotEq, ast.NotIn)) or any(isinstance(u_, ast.UnaryOp) and isinstance(u_.op, ast.Not) and cc in list(ast.walk(u_)) for u_ in ast.walk(n.test))
            rets = [r for r in n.body if isinstance(r, ast.Return) and isinstance(r.value, ast.Call) and norm(r.value.func) == "ExitingContext"]
            if neg and rets:
                ctx.R.fail("OPC-13", mod, n, f"CPython {v}: the exception-path exit is reported for every position that is NOT a WITH_EXCEPT_START, and not for the one that is", construct=f"{v}: WITH_EXCEPT_START test inverted")
                continue
            if neg:
                ctx.R.undecided("OPC-13", f"{v}: negative WITH_EXCEPT_START test `{norm(n.test)[:50]}`")
                continue
            if not rets:
                ctx.R.fail("OPC-13", mod, n, f"CPython {v}: at a WITH_EXCEPT_START the function no longer returns the exiting context: it goes on to match the normal-path call sequence, which is not there, "
                           "and a manager whose __exit__ runs because of an exception is reported as not exiting", construct=f"{v}: no return at WITH_EXCEPT_START")
                continue
            r = rets[0]
            kw = {k.arg: norm(k.value) for k in r.value.keywords}
            back = 0
            okshape = True
            for st in n.body[:n.body.index(r)]:
                if isinstance(st, ast.AugAssign) and norm(st.target) == "offs" and isinstance(st.op, ast.Sub) and isinstance(st.value, ast.Constant):
                    back += st.value.value
                elif isinstance(st, ast.AugAssign) and norm(st.target) == "offs":
                    okshape = False
            if kw.get("cleanup_offset") != "offs" or not okshape:
                ctx.R.undecided("OPC-13", f"{v}: cleanup_offset is `{kw.get('cleanup_offset')}`")
            elif back != want_back:
                ctx.R.fail("OPC-13", mod, r, f"CPython {v}: the with-handler begins with {pref[0]}, so its first instruction is {want_back} bytes before the WITH_EXCEPT_START; the function steps back {back}: "
                           "the offset returned is not a key of the with-block table and the exiting manager is lost (KeyError -> fallback)", construct=f"{v}: steps back {back} instead of {want_back}")
            else:
                ctx.R.ok("OPC-13", f"{v}: WITH_EXCEPT_START -> ExitingContext(cleanup_offset=offs - {back})", f"handler prefix {pref[0]}")


def opc11_step_semantics(ctx: Ctx) -> None:
    """OPC-11 each case of the `as`-target decoder has the stack effect of the opcode it stands for, operand order included.
    The loop body of next_target is evaluated abstractly (engine MINI: symbolic operands on the decoder's list, the integers
    of the instruction at hand) for one instruction of every opname that has a case, and the resulting list is compared with
    the opcode's documented effect (dis: TOS is the index and TOS1 the container for *_SUBSCR; CALL n has the callable below
    its n arguments, first argument deepest; UNPACK_* is followed by its targets first-to-last; ...).  A store sequence must
    end the walk, a load must not"""
    from ..minieval import Mini, Raised, Unsupported
    from types import SimpleNamespace
    mod = ctx.P.mod("_lowlevel")
    nt = mod.fn("describe_assignment_target.next_target")
    outer = mod.fn("describe_assignment_target")
    loops = [w for w in walk_scope(nt) if isinstance(w, ast.While) and any(isinstance(n, ast.If) and opname_literals(n.test) for n in ast.walk(w))]
    if len(loops) != 1:
        ctx.R.undecided("OPC-11", f"{len(loops)} instruction loops in next_target (1 expected)")
        return
    loop = loops[0]
    names: Set[str] = set()
    for n in ast.walk(loop):
        if isinstance(n, ast.If) and not (n.body and isinstance(n.body[-1], ast.Raise)):
            for _, nms in opname_literals(n.test):
                names.update(nms)
    helpers = {h.name: h for h in walk_scope(outer) if isinstance(h, ast.FunctionDef) and h is not nt}
    for h in ast.walk(mod.tree):
        if isinstance(h, ast.FunctionDef) and mod.enclosing_def(h) is None and h.name not in helpers:
            helpers[h.name] = h
    # literal tables the enclosing function (or the module) declares: the decoder's cases may be keyed by them
    tables: Dict[str, Any] = {}
    for st_ in list(mod.tree.body) + list(outer.body):
        if isinstance(st_, (ast.Assign, ast.AnnAssign)) and getattr(st_, "value", None) is not None:
            t_ = st_.targets[0] if isinstance(st_, ast.Assign) else st_.target
            if isinstance(t_, ast.Name) and isinstance(st_.value, (ast.Dict, ast.Tuple, ast.List, ast.Set)):
                try:
                    tables[t_.id] = ast.literal_eval(st_.value)
                except Exception:
                    pass
    for n in ast.walk(loop):
        if isinstance(n, ast.If) and not (n.body and isinstance(n.body[-1], ast.Raise)):
            for c_ in ast.walk(n.test):
                if isinstance(c_, ast.Compare) and len(c_.ops) == 1 and isinstance(c_.ops[0], ast.In) and isinstance(c_.left, ast.Attribute) and c_.left.attr == "opname" \
                        and isinstance(c_.comparators[0], ast.Name) and c_.comparators[0].id in tables:
                    names.update(k_ for k_ in tables[c_.comparators[0].id] if isinstance(k_, str))
    ue = ctx.F["interp"][sorted(ctx.V.all)[0]]["unpack_ex"]["before1_after2"]
    NAME = ("LOAD_GLOBAL", "LOAD_FAST", "LOAD_NAME", "LOAD_DEREF", "STORE_GLOBAL", "STORE_FAST", "STORE_NAME", "STORE_DEREF", "LOAD_FAST_CHECK", "LOAD_CLASSDEREF", "LOAD_FAST_AND_CLEAR", "LOAD_CLOSURE")
    ATTR = ("LOAD_ATTR", "LOAD_METHOD", "LOOKUP_METHOD", "STORE_ATTR")
    NOP = ("PRECALL", "CACHE", "PUSH_NULL", "EXTENDED_ARG", "NOP", "RESUME")
    UNARY = {"UNARY_NEGATIVE": "-", "UNARY_INVERT": "~", "UNARY_POSITIVE": "+", "UNARY_NOT": "not "}
    S = ["<s4>", "<s3>", "<s2>", "<s1>"]

    def cases(op_: str):
        """(description, insn fields, initial operands, expected operands)"""
        if op_ in NAME:
            yield "name", dict(argval="<name>", arg=1, argrepr="<name>"), S, S + ["<name>"]
        elif op_ in ATTR:
            yield "attribute of TOS", dict(argval="<attr>", arg=1, argrepr="<attr>"), S, S[:-1] + ["<s1>.<attr>"]
        elif op_ == "LOAD_CONST":
            yield "constant", dict(argval=7, arg=0, argrepr="<const>"), S, S + ["<const>"]
        elif op_ in ("BINARY_SUBSCR", "STORE_SUBSCR"):
            yield "TOS1[TOS]", dict(argval=None, arg=None, argrepr=""), S, S[:-2] + ["<s2>[<s1>]"]
        elif op_ in ("BINARY_SLICE", "STORE_SLICE"):
            yield "TOS2[TOS1:TOS]", dict(argval=None, arg=None, argrepr=""), S, S[:-3] + ["<s3>[<s2>:<s1>]"]
        elif op_ in ("CALL_FUNCTION", "CALL_METHOD", "CALL"):
            for k in (0, 1, 2, 3):
                a = [f"<a{i + 1}>" for i in range(k)]
                yield f"{k} positional arguments", dict(argval=k, arg=k, argrepr=""), ["<x>", "<f>"] + a, ["<x>", "<f>(" + ", ".join(a) + ")"]
        elif op_ == "UNPACK_SEQUENCE":
            yield "1 target", dict(argval=1, arg=1, argrepr=""), S, S + ["(<t1>,)"]
            yield "3 targets", dict(argval=3, arg=3, argrepr=""), S, S + ["(<t1>, <t2>, <t3>)"]
        elif op_ == "UNPACK_EX":
            yield "a, *b, c, d", dict(argval=ue, arg=ue, argrepr=""), S, S + ["(<t1>, *<t2>, <t3>, <t4>)"]
        elif op_ == "DUP_TOP":
            yield "duplicate TOS", dict(argval=None, arg=None, argrepr=""), S, S + ["<s1>"]
        elif op_ == "POP_TOP":
            yield "drop TOS", dict(argval=None, arg=None, argrepr=""), S, S[:-1]
        elif op_ in NOP:
            yield "no operand effect", dict(argval=None, arg=0, argrepr=""), S, S
        elif op_ in UNARY:
            # the operand may be dereferenced / subscripted / called afterwards: only a parenthesised rendering stays the compiled expression
            yield "unary operator on TOS", dict(argval=None, arg=None, argrepr=""), S, S[:-1] + [f"({UNARY[op_]}<s1>)"]

    n_ok = 0
    CALLS = ("CALL_FUNCTION", "CALL_METHOD", "CALL")
    uses_dis = any(isinstance(x, ast.Attribute) and norm(x) == "dis.stack_effect" for x in ast.walk(loop))
    jobs = []
    for op_ in sorted(names):
        cs = list(cases(op_))
        if not cs:
            ctx.R.ok("OPC-11", f"{op_}: no reference effect in the table", "not compared")
            continue
        if op_ in CALLS and uses_dis:
            # a decoder that asks dis.stack_effect is told different things by different interpreters: one evaluation per interpreter that has the opcode
            for v in sorted(ctx.V.all, key=lambda s_: tuple(map(int, s_.split(".")))):
                if op_ in ctx.F["interp"][v]["opmap"]:
                    jobs.extend((op_, v, c_) for c_ in cs)
        else:
            jobs.extend((op_, None, c_) for c_ in cs)
    for op_, ver_, (desc, fields, init, want) in jobs:
        if True:
            if ver_ is not None:
                desc = f"{desc}, CPython {ver_}"
            counter = [0]

            def fresh() -> str:
                counter[0] += 1
                return f"<t{counter[0]}>"
            insn = SimpleNamespace(opname=op_, offset=0, starts_line=None, is_jump_target=False, opcode=(ctx.F["interp"][ver_]["opmap"][op_] if ver_ else 0), **fields)
            stack = list(init)
            env0 = dict({k_: (dict(v_) if isinstance(v_, dict) else v_) for k_, v_ in tables.items()}, **{"insns": [insn, insn], "idx": 0, "insn": insn, "True": True})
            if ver_ is not None:
                eff = ctx.F["interp"][ver_]["call_stack_effects"]
                omap = ctx.F["interp"][ver_]["opmap"]

                def stack_effect(opcode, arg=None, _eff=eff, _omap=omap):
                    for nm_, code_ in _omap.items():
                        if code_ == opcode and nm_ in _eff and isinstance(arg, int) and 0 <= arg < len(_eff[nm_]):
                            return _eff[nm_][arg]
                    raise Unsupported("dis.stack_effect of an opcode outside the facts")
                env0["dis"] = SimpleNamespace(stack_effect=stack_effect, opmap=None)
                env0["sys"] = SimpleNamespace(version_info=tuple(ctx.F["interp"][ver_]["version_info"]))
            m = Mini(env0, dict(helpers), {nt.name: fresh})
            try:
                # the decoder's per-target state (declared before the loop) starts as the code initialises it; the operand list is ours
                for pst in nt.body:
                    if pst is loop:
                        break
                    if isinstance(pst, (ast.Assign, ast.AnnAssign)):
                        m.stmt(pst)
                m.env["stack"] = stack
                m.env["idx"] = 0
                ctl = m.run(loop.body)
                got = m.env.get("stack")
            except Raised as ex:
                ctx.R.fail("OPC-11", mod, loop, f"the decoder's case for {op_} ({desc}) raises {ex.kind} on a well-formed operand stack {init}: the target is not rendered although the opcode has a case",
                           construct=f"{op_} ({desc}) raises")
                continue
            except Unsupported as ex:
                ctx.R.undecided("OPC-11", f"{op_} ({desc}): the case uses an operation outside the evaluator's fragment: {ex}")
                continue
            ends = op_.startswith(("STORE_", "UNPACK_"))
            if op_ in UNARY and got != want and not (isinstance(got, list) and got and got[-1] == f"{UNARY[op_]}<s1>"):
                ctx.R.undecided("OPC-11", f"{op_}: the decoder renders the operator as {got[-1] if isinstance(got, list) and got else got!r}, neither parenthesised nor the bare spelling")
                continue
            if got != want:
                ctx.R.fail("OPC-11", mod, loop, f"the decoder's case for {op_} ({desc}) turns the operands {init} into {got}; the opcode's effect is {want}: the rendered target is not the expression "
                           "that was compiled (varname is wrong, not merely absent)", construct=f"{op_} ({desc}): {got[-1] if got else got} instead of {want[-1] if want else want}")
            elif (ctl == "break") != ends:
                ctx.R.fail("OPC-11", mod, loop, f"after {op_} the decoder {'continues with the following instructions' if ends else 'stops'}: a target's store sequence ends exactly at its STORE_* / after the targets "
                           "of its UNPACK_*", construct=f"{op_}: end of the store sequence")
            else:
                n_ok += 1
                ctx.R.ok("OPC-11", f"{op_} ({desc}): {init[-3:]} -> {got[-2:]}", "matches the opcode's stack effect; " + ("ends the sequence" if ends else "continues"))
    # keyword calls (if the decoder has cases for them): the names belong to exactly one call.  The interpreter consumes KW_NAMES /
    # the names tuple of CALL_FUNCTION_KW with the call that follows; a decoder that keeps them renders the positional arguments
    # of a *later* call of the same target as keywords (`reg(kind='x').get(3)` -> `reg(kind='x').get(kind=3)`)
    import ast as _ast
    seqs = []
    if "KW_NAMES" in names and "CALL" in names:
        seqs.append(("KW_NAMES; CALL 1; CALL 1", [("KW_NAMES", dict(argval=("k1",), arg=0, argrepr="('k1',)")), ("CALL", dict(argval=1, arg=1, argrepr="")), ("CALL", dict(argval=1, arg=1, argrepr=""))],
                     ["<x>", "<g>", "<f>", "<a1>"]))
    if "CALL_FUNCTION_KW" in names and "CALL_FUNCTION" in names:
        seqs.append(("CALL_FUNCTION_KW 1; CALL_FUNCTION 1", [("CALL_FUNCTION_KW", dict(argval=1, arg=1, argrepr="")), ("CALL_FUNCTION", dict(argval=1, arg=1, argrepr=""))],
                     ["<x>", "<g>", "<f>", "<a1>", "('k1',)"]))
    for label, ins, init in seqs:
        il = [SimpleNamespace(opname=o_, offset=2 * i_, starts_line=None, is_jump_target=False, opcode=0, **f_) for i_, (o_, f_) in enumerate(ins)]
        il.append(SimpleNamespace(opname="<end>", offset=2 * len(il), starts_line=None, is_jump_target=False, opcode=0, argval=None, arg=None, argrepr=""))
        env0 = dict({k_: (dict(v_) if isinstance(v_, dict) else v_) for k_, v_ in tables.items()}, **{"insns": il, "idx": 0, "True": True, "ast": SimpleNamespace(literal_eval=_ast.literal_eval)})
        m = Mini(env0, dict(helpers), {nt.name: lambda: "<t>"})
        try:
            for pst in nt.body:
                if pst is loop:
                    break
                if isinstance(pst, (ast.Assign, ast.AnnAssign)):
                    m.stmt(pst)
            m.env["stack"] = list(init)
            m.env["idx"] = 0
            for _ in ins:
                ctl = m.run(loop.body)
                if ctl == "break":
                    break
            got = m.env.get("stack")
        except (Raised, Unsupported) as ex:
            ctx.R.ok("OPC-11", f"{label}: not evaluated ({str(ex)[:60]})", "keyword calls stay an unsupported target form or are outside the fragment")
            continue
        except Exception as ex:
            ctx.R.ok("OPC-11", f"{label}: not evaluated ({type(ex).__name__})", "outside the fragment")
            continue
        want = ["<x>", "<g>(<f>(k1=<a1>))"]
        if got == want:
            n_ok += 1
            ctx.R.ok("OPC-11", f"{label}: {init} -> {got}", "the keyword names are used by the call they precede and by no later one")
        elif isinstance(got, list) and got and isinstance(got[-1], str) and "k1=<f>" in got[-1]:
            ctx.R.fail("OPC-11", mod, loop, f"{label} on operands {init} is rendered as {got[-1]!r}; the compiled expression is {want[-1]!r}: the keyword names of one call are still in effect for the next "
                       "call of the same target (the interpreter consumes them with the call they precede), so a later call's positional arguments are shown as keywords -- varname is wrong, not absent",
                       construct="keyword names survive the call they belong to")
        else:
            ctx.R.undecided("OPC-11", f"{label}: operands {init} become {got}")
    if n_ok < 20 and not any(e_.startswith("OPC-11") for e_ in ctx.R.errors):
        raise AnalysisError(f"OPC-11: only {n_ok} opcode cases evaluated")


def opc9_unpack_ex(ctx: Ctx) -> None:
    """OPC-9 the starred target of `with cm as (a, *b, c)` is rendered at the position the compiler encodes: the count of
    targets *before* the star is the byte of UNPACK_EX's oparg that the compilers of all supported interpreters put it in
    (FACTS: unpack_ex, from compiling `a, *b, c, d = x`), the count after it the other byte"""
    mod = ctx.P.mod("_lowlevel")
    fn = mod.fn("describe_assignment_target")
    ctx.R.saw(mod, "describe_assignment_target")
    enc = {v: ctx.F["interp"][v]["unpack_ex"] for v in ctx.V.all}
    before_is_low = all(e["before1_after2"] == 1 + (2 << 8) and e["before2_after0"] == 2 and e["before0_after1"] == 256 for e in enc.values())
    if not before_is_low:
        raise AnalysisError(f"OPC-9: the compilers do not agree on 'low byte = targets before the star': {enc}")
    branches = [s for s in ast.walk(fn) if isinstance(s, ast.If) and any(isinstance(c, ast.Constant) and c.value == "UNPACK_EX" for c in ast.walk(s.test))]
    if not branches:
        raise AnalysisError("OPC-9: no branch of describe_assignment_target tests for UNPACK_EX")
    br = branches[0]

    def cls(e: ast.AST, env: Dict[str, str]) -> Optional[str]:
        if isinstance(e, ast.Name):
            return env.get(e.id)
        if isinstance(e, ast.BinOp) and isinstance(e.right, ast.Constant) and "argval" in norm(e.left) or (isinstance(e, ast.BinOp) and isinstance(e.left, ast.Attribute) and e.left.attr in ("argval", "arg") and isinstance(e.right, ast.Constant)):
            k = e.right.value
            if isinstance(e.op, ast.BitAnd) and k == 255 or isinstance(e.op, ast.Mod) and k == 256:
                return "LOW"
            if isinstance(e.op, ast.RShift) and k == 8 or isinstance(e.op, ast.FloorDiv) and k == 256:
                return "HIGH"
        return None

    env: Dict[str, str] = {}
    for a in ast.walk(br):
        if isinstance(a, ast.Assign) and len(a.targets) == 1:
            tg, v = a.targets[0], a.value
            if isinstance(tg, ast.Name) and cls(v, env):
                env[tg.id] = cls(v, env)
            elif isinstance(tg, ast.Tuple) and isinstance(v, ast.Call) and norm(v.func) == "divmod" and len(v.args) == 2 and norm(v.args[1]) == "256" and len(tg.elts) == 2:
                for t_, c_ in zip(tg.elts, ("HIGH", "LOW")):
                    if isinstance(t_, ast.Name):
                        env[t_.id] = c_
    # events in source order: N(class) for `range(E)`-driven target reads, ONE for a single target read, STAR(index class)
    events: List[Tuple[int, int, str, Optional[str]]] = []
    for n in ast.walk(br):
        if isinstance(n, ast.Call) and norm(n.func) == "range" and len(n.args) == 1:
            comp = [a for a in mod.ancestors(n) if isinstance(a, (ast.ListComp, ast.GeneratorExp, ast.For))]
            if comp and any(isinstance(c, ast.Call) and norm(c.func) == "next_target" for c in ast.walk(comp[0])):
                events.append((n.lineno, n.col_offset, "N", cls(n.args[0], env) or ("SUM" if isinstance(n.args[0], (ast.Name, ast.BinOp)) and cls(n.args[0], env) is None else None)))
        elif isinstance(n, ast.Call) and norm(n.func) == "next_target" and not any(isinstance(a, (ast.ListComp, ast.GeneratorExp, ast.For)) and a is not br for a in mod.ancestors(n) if any(a is x for x in ast.walk(br))):
            events.append((n.lineno, n.col_offset, "ONE", None))
        elif isinstance(n, ast.Assign) and isinstance(n.targets[0], ast.Subscript) and any(isinstance(j, ast.JoinedStr) and norm(j).startswith("f'*") for j in ast.walk(n.value)):
            events.append((n.lineno, n.col_offset, "STARIDX", cls(n.targets[0].slice, env)))
    events.sort()
    kinds = [(k, c) for _, _, k, c in events]
    if [k for k, _ in kinds] == ["N", "ONE", "N"]:
        first, last = kinds[0][1], kinds[2][1]
        if (first, last) == ("LOW", "HIGH"):
            ctx.R.ok("OPC-9", "UNPACK_EX: (oparg & 0xFF) targets, the starred one, (oparg >> 8) targets", f"compilers: {enc['3.12']}")
        elif first in ("LOW", "HIGH") and last in ("LOW", "HIGH"):
            ctx.R.fail("OPC-9", mod, br, f"UNPACK_EX: the number of targets read before the starred one is the {first} byte of the oparg and after it the {last} byte; the compilers put the count before the star "
                       "in the low byte: `(head, *rest)` is rendered as `(*head, rest)`", construct="UNPACK_EX counts swapped")
        else:
            ctx.R.undecided("OPC-9", "UNPACK_EX: cannot classify the two counts")
    elif any(k == "STARIDX" for k, _ in kinds):
        c = [c for k, c in kinds if k == "STARIDX"][0]
        if c == "LOW":
            ctx.R.ok("OPC-9", "UNPACK_EX: the starred target is the one at index (oparg & 0xFF)")
        elif c == "HIGH":
            ctx.R.fail("OPC-9", mod, br, "UNPACK_EX: the index of the starred target is taken from the high byte of the oparg (the count of targets *after* the star); the compilers put the count before the star "
                       "in the low byte: `(head, *rest)` is rendered as `(*head, rest)`", construct="UNPACK_EX counts swapped")
        else:
            ctx.R.undecided("OPC-9", "UNPACK_EX: cannot classify the index of the starred target")
    else:
        ctx.R.undecided("OPC-9", f"UNPACK_EX: target reads {kinds} not in a recognised arrangement")


# --------------------------------------------------------------------- OPC-6 exit-call template agreement
def opc6_exit_templates(ctx: Ctx) -> None:
    """OPC-6 the literals of the backward pattern match in currently_exiting_context agree with the instruction
    sequence each compiler emits for the normal-path call of __exit__(None, None, None) (FACTS: exit templates)"""
    mod = ctx.P.mod("_lowlevel")
    fn = mod.fn("currently_exiting_context")
    reach = ctx.reach(mod)
    T = {v: ctx.F["interp"][v]["exit_templates"] for v in ctx.V.all}

    def live(n: ast.AST):
        return reach.live.get(id(n), frozenset())

    def opnames_in(e: ast.AST) -> List[str]:
        return [x.slice.value for x in ast.walk(e) if isinstance(x, ast.Subscript) and isinstance(x.slice, ast.Constant) and isinstance(x.slice.value, str) and _is_opmap(ctx, mod, x.value)]

    n_checked = 0
    # ---- A: the k-instruction window of 3.9 / 3.10
    for cmp_ in [c for c in ast.walk(fn) if isinstance(c, ast.Compare) and len(c.ops) == 1]:
        sides = [cmp_.left, cmp_.comparators[0]]
        win = [x for x in sides if isinstance(x, ast.Subscript) and norm(x.value) == "code" and isinstance(x.slice, ast.Slice) and x.slice.step is not None]
        byt = [x for x in sides if isinstance(x, ast.Call) and norm(x.func) == "bytes" and x.args and isinstance(x.args[0], ast.List)]
        if not win or not byt:
            continue
        names = [norm(e.slice)[1:-1] if isinstance(e, ast.Subscript) else None for e in byt[0].args[0].elts]
        if None in names:
            continue
        k = len(names)
        sl = win[0].slice
        lo, hi, step = norm(sl.lower), norm(sl.upper), norm(sl.step)
        import re as _re
        mlo = _re.fullmatch(r"offs - (\d+)", lo)
        mhi = _re.fullmatch(r"offs \+ (\d+)", hi)
        a_ = int(mlo.group(1)) if mlo else None              # the window starts a_ bytes before offs
        b_ = int(mhi.group(1)) if mhi else (0 if hi == "offs" else None)   # and ends b_ bytes after it (exclusive)
        if a_ is None or b_ is None or step != "2" or a_ % 2 or b_ % 2 or (a_ + b_) // 2 != k:
            for v in sorted(live(cmp_)):
                n_checked += 1
                ctx.R.fail("OPC-6", mod, cmp_, f"CPython {v}: a window of {k} code units around offs is code[offs - 2i:offs + 2j:2] with i + j == {k}; the matcher slices code[{lo}:{hi}:{step}]",
                           construct=f"{v}: window bounds [{lo}:{hi}:{step}]")
            continue
        back = a_ + 2          # from offs to the instruction before the window
        for v in sorted(live(cmp_)):
            n_checked += 1
            t = [a for a, b in T[v]["fall/sync"]]
            calls = [i for i, a in enumerate(t) if a.startswith("CALL")]
            if not calls:
                ctx.R.undecided("OPC-6", f"{v}: no call in the exit template")
                continue
            c = calls[0]
            want = t[c - a_ // 2:c + b_ // 2]
            if names != want:
                ctx.R.fail("OPC-6", mod, cmp_, f"CPython {v}: the compiler ends the normal-path __exit__ call with {t[max(0, c - a_ // 2):c + 1]}, the matcher compares code[{lo}:{hi}:2] (relative to the call at offs) with {names}",
                           construct=f"{v}: window opcodes {names}")
            elif b_ == 0 and not [c2 for c2 in ast.walk(fn) if isinstance(c2, ast.Compare) and v in live(c2) and norm(_unalias(mod, c2).left) == "code[offs]" and t[c] in opnames_in(c2)]:
                ctx.R.undecided("OPC-6", f"{v}: the window stops before the call and no separate test of code[offs] against {t[c]} was found")
            else:
                ctx.R.ok("OPC-6", f"{v}: window {names} == template at [{-a_ // 2}, {b_ // 2}) around the call, bounds [{lo}:{hi}:{step}]")
            # guard `offs < 2k` in the same condition and the step back over the window afterwards
            st = _stmt(mod, cmp_)
            if isinstance(st, ast.If):
                for g in ast.walk(st.test):
                    if isinstance(g, ast.Compare) and norm(g.left) == "offs" and isinstance(g.ops[0], ast.Lt) and isinstance(g.comparators[0], ast.Constant):
                        if g.comparators[0].value == back:
                            ctx.R.ok("OPC-6", f"{v}: bounds guard offs < {back}")
                        else:
                            ctx.R.fail("OPC-6", mod, g, f"CPython {v}: the window needs offs >= {back} (it starts at offs - {a_} and the POP_BLOCK before it is at offs - {back}); the guard is `{norm(g)}`",
                                       construct=f"{v}: window guard {norm(g)}")
                blk = None
                p = mod.parent_of(st)
                for f_ in ("body", "orelse"):
                    b = getattr(p, f_, None)
                    if isinstance(b, list) and any(x is st for x in b):
                        blk = b
                if blk is not None:
                    after = blk[blk.index(st) + 1:]
                    steps = [x for x in after if isinstance(x, ast.AugAssign) and norm(x.target) == "offs"]
                    if steps:
                        s0 = steps[0]
                        if isinstance(s0.op, ast.Sub) and isinstance(s0.value, ast.Constant) and s0.value.value == back:
                            ctx.R.ok("OPC-6", f"{v}: steps back {back} bytes from the call to the instruction before the window ({t[c - back // 2]})")
                        else:
                            ctx.R.fail("OPC-6", mod, s0, f"CPython {v}: from the CALL the instruction before the window is {back} bytes back ({t[c - back // 2] if c - back // 2 >= 0 else '?'}); the matcher does `{norm(s0)}`",
                                       construct=f"{v}: step over window {norm(s0)}")
                    else:
                        moves = [x for x in after if isinstance(x, ast.Assign) and any(norm(t_) == "offs" for t_ in x.targets)] \
                            + [x for x in after if isinstance(x, ast.Expr) and isinstance(x.value, ast.Call) and any(norm(a_) == "offs" for a_ in x.value.args)]
                        if moves:
                            ctx.R.undecided("OPC-6", f"{v}: the step back over the window is not a plain `offs -= n`")
                        else:
                            ctx.R.fail("OPC-6", mod, st, f"CPython {v}: after matching the window the position is never moved back over it: the POP_BLOCK test that follows looks at the call itself "
                                       "and every normal-path exit is reported as 'not exiting'", construct=f"{v}: no step back over the window")
                    # every skip on the way back must *skip what it tests for*: `while/if code[offs] == op[X]: offs -= 2`
                    for x in after:
                        if isinstance(x, (ast.While, ast.If)) and any(isinstance(y, ast.AugAssign) and norm(y.target) == "offs" for y in x.body) and opnames_in(x.test):
                            eqs = [cc for cc in ast.walk(x.test) if isinstance(cc, ast.Compare) and opnames_in(cc) and "code[offs]" in norm(_unalias(mod, cc))]
                            neg = [cc for cc in eqs if isinstance(cc.ops[0], (ast.NotEq, ast.NotIn))]
                            inverted = any(isinstance(u_, ast.UnaryOp) and isinstance(u_.op, ast.Not) and any(cc in list(ast.walk(u_)) for cc in eqs) for u_ in ast.walk(x.test))
                            stepb = [y for y in x.body if isinstance(y, ast.AugAssign) and norm(y.target) == "offs"]
                            if neg or inverted:
                                ctx.R.fail("OPC-6", mod, x, f"CPython {v}: `{norm(x.test)[:60]}` skips backwards over everything that is NOT {opnames_in(x.test)}: the walk back to POP_BLOCK runs past it",
                                           construct=f"{v}: inverted skip of {opnames_in(x.test)}")
                            elif stepb and not (isinstance(stepb[0].op, ast.Sub) and isinstance(stepb[0].value, ast.Constant) and stepb[0].value.value == 2):
                                ctx.R.fail("OPC-6", mod, stepb[0], f"CPython {v}: skipping one {opnames_in(x.test)[0]} instruction backwards is `offs -= 2`; the matcher does `{norm(stepb[0])}`",
                                           construct=f"{v}: skip step {norm(stepb[0])}")
                            else:
                                ctx.R.ok("OPC-6", f"{v}: skips {opnames_in(x.test)} one instruction at a time")
                    # what can sit between POP_BLOCK and the window on jump-out paths must be skipped
                    tested = set()
                    for x in after:
                        for cc in ast.walk(x):
                            if isinstance(cc, ast.Compare):
                                tested |= set(opnames_in(cc))
                            elif isinstance(cc, ast.Call) and isinstance(cc.func, ast.Name) and cc.func.id in mod.defs and any(norm(a_) in ("offs", "code") or "offs" in norm(a_) for a_ in cc.args):
                                # the opcode is handed to a helper of this module together with the position: the test lives there
                                tested |= set(opnames_in(cc))
                    # EXTENDED_ARG is a prefix glued to the instruction it extends (here the LOAD_CONST that starts the window):
                    # on the way back it is met before any optional filler that precedes the window
                    order = [opnames_in(x.test) for x in after if isinstance(x, (ast.While, ast.If)) and any(isinstance(y, ast.AugAssign) and norm(y.target) == "offs" for y in x.body)]
                    ext_i = [i for i, o_ in enumerate(order) if "EXTENDED_ARG" in o_]
                    fill_i = [i for i, o_ in enumerate(order) if o_ and "EXTENDED_ARG" not in o_]
                    if ext_i and fill_i:
                        if min(fill_i) < min(ext_i):
                            bad_x = [x for x in after if isinstance(x, (ast.While, ast.If)) and opnames_in(x.test) == order[min(fill_i)]][0]
                            ctx.R.fail("OPC-6", mod, bad_x, f"CPython {v}: walking back from the window, the matcher skips {order[min(fill_i)][0]} before it skips EXTENDED_ARG; EXTENDED_ARG is the prefix of the "
                                       f"{names[0]} that starts the window, so it is met first: with a prefix present the filler test sees EXTENDED_ARG, nothing is skipped in the right order and POP_BLOCK is not "
                                       "reached (the exiting manager of a `return <expr>` exit is lost in code objects whose None constant has index >= 256)", construct=f"{v}: filler skipped before EXTENDED_ARG")
                        else:
                            ctx.R.ok("OPC-6", f"{v}: EXTENDED_ARG prefixes are skipped before the optional {order[min(fill_i)][0]}")
                    for tname, seq in T[v].items():
                        if not tname.endswith("/sync"):
                            continue
                        tt = [a for a, b in seq]
                        cs = [i for i, a in enumerate(tt) if a.startswith("CALL")]
                        if not cs or cs[0] - back // 2 < 0:
                            continue
                        before = tt[cs[0] - back // 2]
                        if before == "POP_BLOCK":
                            # the landing instruction itself: the function must test for it under v
                            pb = [c2 for c2 in ast.walk(fn) if isinstance(c2, ast.Compare) and norm(c2.left) == "code[offs]" and "POP_BLOCK" in opnames_in(c2) and v in live(c2)]
                            if pb:
                                ctx.R.ok("OPC-6", f"{v}: lands on POP_BLOCK ({tname}), which is what the matcher then requires")
                            else:
                                ctx.R.fail("OPC-6", mod, st, f"CPython {v}: the instruction before the window is POP_BLOCK but the matcher no longer checks for it", construct=f"{v}: POP_BLOCK check missing")
                        elif before in tested:
                            ctx.R.ok("OPC-6", f"{v}: `{before}` before the window ({tname}) is handled")
                        else:
                            ctx.R.fail("OPC-6", mod, st, f"CPython {v}: on the '{tname.split('/')[0]}' exit the compiler puts {before} right before the window, and the matcher has no test for it on the way back to POP_BLOCK",
                                       construct=f"{v}: {before} before window unhandled")
    # ---- B: 3.11+ LOAD_CONST run, CALL oparg, PRECALL, GET_AWAITABLE oparg
    loops = [l for l in ast.walk(fn) if isinstance(l, ast.For) and isinstance(l.iter, ast.Call) and norm(l.iter.func) == "range" and len(l.iter.args) == 1
             and any(isinstance(c, ast.Call) and norm(c.func) == "backtrack_over_load_none" for c in ast.walk(l))]
    for l in loops:
        okc, nval = (True, l.iter.args[0].value) if isinstance(l.iter.args[0], ast.Constant) else (False, None)
        for v in sorted(live(l)):
            n_checked += 1
            t = [a for a, b in T[v]["fall/sync"]]
            c = [i for i, a in enumerate(t) if a.startswith("CALL")][0]
            j = c - 1
            while j >= 0 and t[j] in ("PRECALL",):
                j -= 1
            run = 0
            while j >= 0 and t[j] == "LOAD_CONST":
                run += 1
                j -= 1
            if not okc:
                ctx.R.undecided("OPC-6", f"{v}: range() bound is not a literal")
            elif nval == run:
                ctx.R.ok("OPC-6", f"{v}: {run} LOAD_CONST None before the call, matcher backtracks over {nval}")
            else:
                ctx.R.fail("OPC-6", mod, l, f"CPython {v}: the compiler pushes {run} None arguments before the __exit__ call, the matcher backtracks over {nval}", construct=f"{v}: range({nval}) vs {run} LOAD_CONST")
    for cmp_ in [c for c in ast.walk(fn) if isinstance(c, ast.Compare) and len(c.ops) == 1]:
        sides = [cmp_.left, cmp_.comparators[0]]
        byt = [x for x in sides if isinstance(x, ast.Call) and norm(x.func) == "bytes" and x.args and isinstance(x.args[0], ast.List) and len(x.args[0].elts) == 2
               and isinstance(x.args[0].elts[1], ast.Constant)]
        if byt and opnames_in(byt[0]) == ["CALL"]:
            m = byt[0].args[0].elts[1].value
            for v in sorted(live(cmp_)):
                n_checked += 1
                arg = [b for a, b in T[v]["fall/sync"] if a == "CALL"]
                if arg and arg[0] == m:
                    ctx.R.ok("OPC-6", f"{v}: __exit__ is called with CALL {m}")
                else:
                    ctx.R.fail("OPC-6", mod, cmp_, f"CPython {v}: the compiler calls __exit__ with CALL {arg[0] if arg else '?'}, the matcher requires CALL {m}", construct=f"{v}: CALL oparg {m}")
        # code[offs + 1] != G  next to GET_AWAITABLE
        if norm(cmp_.left) == "code[offs + 1]" and isinstance(cmp_.comparators[0], ast.Constant):
            par = mod.parent_of(cmp_)
            ctxt = par
            while ctxt is not None and not isinstance(ctxt, ast.stmt):
                ctxt = mod.parent_of(ctxt)
            if ctxt is not None and "GET_AWAITABLE" in opnames_in(ctxt.test if hasattr(ctxt, "test") else ctxt):
                gval = cmp_.comparators[0].value
                for v in sorted(live(cmp_)):
                    n_checked += 1
                    arg = [b for a, b in T[v]["fall/async"] if a == "GET_AWAITABLE"]
                    if arg and arg[0] == gval and isinstance(cmp_.ops[0], ast.NotEq):
                        ctx.R.ok("OPC-6", f"{v}: GET_AWAITABLE {gval} marks an __aexit__ await")
                    elif arg and arg[0] == -1:
                        ctx.R.fail("OPC-6", mod, cmp_, f"CPython {v}: GET_AWAITABLE has no oparg there, but its argument byte is compared with {gval} on a path reachable under {v}", construct=f"{v}: GET_AWAITABLE oparg test")
                    else:
                        ctx.R.fail("OPC-6", mod, cmp_, f"CPython {v}: the compiler emits GET_AWAITABLE {arg[0] if arg else '?'} for __aexit__, the matcher tests `{norm(cmp_)}`", construct=f"{v}: GET_AWAITABLE oparg {gval}")
    # PRECALL: tested exactly where the template has it
    pre = [c for c in ast.walk(fn) if isinstance(c, ast.Compare) and "PRECALL" in opnames_in(c)]
    if pre:
        pl = frozenset().union(*(live(c) for c in pre))
        for v in sorted(ctx.V.all):
            has = any(a == "PRECALL" for a, b in T[v]["fall/sync"])
            n_checked += 1
            if has and v not in pl:
                ctx.R.fail("OPC-6", mod, pre[0], f"CPython {v} emits PRECALL before CALL but the matcher's PRECALL step is not reachable under {v}: the LOAD_CONST test sees PRECALL and gives up", construct=f"{v}: PRECALL not handled")
            elif not has and v in pl and "CALL" in [a for a, b in T[v]["fall/sync"]]:
                ctx.R.fail("OPC-6", mod, pre[0], f"CPython {v} does not emit PRECALL but the matcher requires it on a path reachable under {v}: every synchronous exit is missed there", construct=f"{v}: PRECALL required")
            else:
                ctx.R.ok("OPC-6", f"{v}: PRECALL {'expected and handled' if has else 'neither emitted nor required'}")
    # fillers right before the LOAD_CONST run on jump-out exits (3.11+): SWAP / NOP
    tup = [c for c in ast.walk(fn) if isinstance(c, ast.Compare) and isinstance(c.ops[0], ast.In) and norm(c.left) == "code[offs]" and isinstance(c.comparators[0], ast.Tuple)
           and set(opnames_in(c.comparators[0])) & {"SWAP", "NOP"}]
    if tup:
        handled = set(opnames_in(tup[0].comparators[0]))
        for v in sorted(live(tup[0])):
            for tname, seq in T[v].items():
                if not tname.endswith("/sync"):
                    continue
                tt = [a for a, b in seq]
                c = [i for i, a in enumerate(tt) if a == "CALL"]
                if not c:
                    continue
                j = c[0] - 1
                while j >= 0 and tt[j] in ("PRECALL", "LOAD_CONST"):
                    j -= 1
                if j < 0:
                    continue
                n_checked += 1
                b4 = tt[j]
                if b4 in handled or b4.startswith("LOAD_") or b4.startswith("POP_"):
                    ctx.R.ok("OPC-6", f"{v}: `{b4}` before the None arguments ({tname}) is tolerated")
                else:
                    ctx.R.fail("OPC-6", mod, tup[0], f"CPython {v}: on the '{tname.split('/')[0]}' exit the compiler puts {b4} (outside the handler's range) right before the None arguments; the matcher tolerates only {sorted(handled)}",
                               construct=f"{v}: {b4} before LOAD_CONST run")
    if n_checked < 12:
        raise AnalysisError(f"OPC-6: only {n_checked} template agreements checked (>= 12 confirmed by hand)")


# --------------------------------------------------------------------- OPC-8 jump arithmetic of the 3.9/3.10 block-stack walk
def _opc8_jump_arithmetic(ctx: Ctx) -> None:
    """OPC-8 in the control-flow walk of currently_exiting_context (CPython < 3.11): a relative jump / SETUP_* target and the
    fall-through successor are computed from the position of the decoded instruction itself (after its EXTENDED_ARG
    prefixes), absolute jumps from the argument alone, and both are scaled by the same unit factor"""
    mod = ctx.P.mod("_lowlevel")
    fn = mod.fn("currently_exiting_context")
    loops = [l for l in ast.walk(fn) if isinstance(l, ast.While) and norm(l.test) == "todo"]
    if len(loops) != 1:
        _undecided_or_deferred(ctx, "OPC-8", "the `while todo` walk was not found")
        return
    loop = loops[0]
    # position variable of the decoded instruction: the one advanced by the EXTENDED_ARG loop
    ext = [w for w in ast.walk(loop) if isinstance(w, ast.While) and "EXTENDED_ARG" in norm(w.test)]
    if len(ext) != 1:
        _undecided_or_deferred(ctx, "OPC-8", "EXTENDED_ARG prefix loop not found in the walk")
        return
    adv = [s for s in ext[0].body if isinstance(s, ast.AugAssign) and isinstance(s.op, ast.Add) and isinstance(s.value, ast.Constant) and s.value.value == 2]
    if len(adv) != 1:
        _undecided_or_deferred(ctx, "OPC-8", "the prefix loop does not advance a position by 2")
        return
    P = norm(adv[0].target)
    # arg accumulates (arg << 8) | code[P + 1]
    acc = [s for s in ext[0].body if isinstance(s, ast.Assign) and isinstance(s.targets[0], ast.Name) and norm(s.targets[0]) != P]
    A = norm(acc[0].targets[0]) if len(acc) == 1 else "arg"
    if len(acc) == 1 and norm(acc[0].value) in (f"{A} << 8 | code[{P} + 1]", f"({A} << 8) | code[{P} + 1]"):
        ctx.R.ok("OPC-8", f"EXTENDED_ARG prefixes accumulate {A} = ({A} << 8) | code[{P} + 1]")
    else:
        ctx.R.fail("OPC-8", mod, ext[0], f"each EXTENDED_ARG prefix must extend the argument as ({A} << 8) | code[{P} + 1]", construct="EXTENDED_ARG accumulation")
    jm = [s for s in ast.walk(fn) if isinstance(s, ast.Assign) and norm(s.targets[0]) == "jmul"]
    if len(jm) == 1 and isinstance(jm[0].value, ast.IfExp):
        for v in ("3.9", "3.10"):
            c = ctx.V.cond(jm[0].value.test, v)
            val = ast.literal_eval(jm[0].value.body if c else jm[0].value.orelse) if c is not None else None
            want = 2 if v == "3.10" else 1
            if val == want:
                ctx.R.ok("OPC-8", f"{v}: jump arguments count units of {want} byte(s)")
            else:
                ctx.R.fail("OPC-8", mod, jm[0], f"CPython {v}: jump arguments are in units of {want} byte(s) (instructions from 3.10 on), the walk scales them by {val}", construct=f"{v}: jmul == {val}")
    else:
        _undecided_or_deferred(ctx, "OPC-8", "jump unit factor `jmul` not found")
    # every target expression appended to the work list / pushed on the simulated block stack
    n = 0
    for e in ast.walk(loop):
        if isinstance(e, ast.BinOp) and isinstance(e.op, ast.Add):
            t = norm(e)
            if t.endswith(f"+ {A} * jmul") and "+ 2" in t:
                n += 1
                base = norm(e.left.left) if isinstance(e.left, ast.BinOp) else None
                if t == f"{P} + 2 + {A} * jmul":
                    ctx.R.ok("OPC-8", f"relative target {t}")
                else:
                    ctx.R.fail("OPC-8", mod, e, f"a relative jump / SETUP_* target is relative to the instruction after the decoded opcode at `{P}`; the walk computes `{t}` "
                               f"(when the jump carries an EXTENDED_ARG prefix the two differ by the prefix length: the handler offset and the successor are wrong)", construct=f"relative target {t}")
    falls = [c for c in ast.walk(loop) if isinstance(c, ast.Call) and norm(c.func) == "todo.append" and isinstance(c.args[0], ast.Tuple)
             and isinstance(c.args[0].elts[0], ast.BinOp) and isinstance(c.args[0].elts[0].op, ast.Add) and isinstance(c.args[0].elts[0].right, ast.Constant)
             and A not in norm(c.args[0].elts[0])]
    for c in falls:
        n += 1
        if norm(c.args[0].elts[0]) == f"{P} + 2":
            ctx.R.ok("OPC-8", f"fall-through successor {P} + 2")
        else:
            ctx.R.fail("OPC-8", mod, c, f"the fall-through successor is the instruction after the decoded opcode at `{P}`, the walk queues `{norm(c.args[0].elts[0])}`", construct=f"fall-through {norm(c.args[0].elts[0])}")
    absj = [c for c in ast.walk(loop) if isinstance(c, ast.Call) and norm(c.func) == "todo.append" and isinstance(c.args[0], ast.Tuple) and norm(c.args[0].elts[0]) in (f"{A} * jmul", f"jmul * {A}")]
    if absj:
        n += 1
        ctx.R.ok("OPC-8", f"absolute target {A} * jmul")
    if n < 3:
        _undecided_or_deferred(ctx, "OPC-8", f"only {n} jump-target expressions recognised in the walk")


def _table_rule_vs_sites(ctx: Ctx, rule: str, inner) -> None:
    """run a table / shape rule about the 3.9 / 3.10 walk; if it reports, but the whole function evaluated on every observed exit
    site of those interpreters (OPC-16: 35 shapes per interpreter, among them bodies long enough for EXTENDED_ARG on relative and
    absolute jumps and on SETUP_*) resolves each site to its handler, the table reading and the evaluation disagree: the rule is
    then undecided, not a violation (the evaluation is the stronger reading; a real arithmetic slip loses sites, see the
    round-8 seed C20h-fetch-helper-prefix-offset)"""
    n0 = len(ctx.R.findings)
    inner(ctx)
    mine = [f for f in ctx.R.findings[n0:] if f.rule == rule]
    # only readings of the jump arithmetic are put to the sites; bookkeeping rows (visited set, POP_BLOCK) are not: an unmarked
    # visited set, say, costs termination on cyclic code, which no finite set of sites shows
    if mine and all(any(w_ in f.construct for w_ in ("JABS", "JREL", "target")) and not any(w_ in f.construct for w_ in ("SEEN", "POPB", "UNCOND")) for f in mine) and _walk_covered_by_sites(ctx) is not None:
        for f in mine:
            ctx.R.findings.remove(f)
        ctx.R.obligations[:] = [o for o in ctx.R.obligations if not (o.get("rule") == rule and o.get("ok") is False)]
        ctx.R.counts[rule] = max(0, ctx.R.counts.get(rule, 0) - len(mine))
        ctx.R.undecided(rule, f"the rule reads `{mine[0].construct[:80]}` as a violation, but currently_exiting_context evaluated on all {_walk_covered_by_sites(ctx)} observed 3.9 / 3.10 exit sites resolves every one (OPC-16)")


def opc12_block_walk_table(ctx: Ctx) -> None:
    _table_rule_vs_sites(ctx, "OPC-12", _opc12_block_walk_table)


def opc8_jump_arithmetic(ctx: Ctx) -> None:
    _table_rule_vs_sites(ctx, "OPC-8", _opc8_jump_arithmetic)


opc12_block_walk_table.__doc__ = _opc12_block_walk_table.__doc__
opc8_jump_arithmetic.__doc__ = _opc8_jump_arithmetic.__doc__
