"""C06 / C07: ESC-1..3, NULL-1, SNAP-1..5, THR-1."""
from __future__ import annotations

import ast
from typing import Dict, List, Optional, Set, Tuple

from ..ctx import Ctx
from ..dataflow import definite_assignment
from ..model import AnalysisError, Mod, norm, walk_scope, calls_in, PKG
from ..taint import expr_tainted, fresh_names, tainted_names
from ..util import broad_handlers, contains, enclosing_tries, equivalent, in_body
from .opcodes import guards_of

# parameters that are user configuration, not extraction targets
CLEAN_PARAMS = {
    ("_lowlevel", "set_trickery_enabled"): ({"enabled"}, "global mode switch value (bool/None) given by the user"),
    ("_extract", "ExtractOptions.push"): ({"with_contexts", "recurse_child_tasks"}, "boolean extraction options, restored on exit"),
}
MUTATORS = {"append", "appendleft", "add", "update", "setdefault", "extend", "insert", "register", "__setitem__", "extendleft"}
RESUMERS = {"send", "throw", "close", "asend", "athrow", "aclose", "__next__", "__anext__", "clear"}


def _registration_time(mod: Mod, fn: ast.AST) -> Optional[str]:
    """functions that run at import / glue-installation / hook-registration time and never see a target"""
    q = mod.qualname_of(fn)
    if isinstance(fn, (ast.FunctionDef, ast.AsyncFunctionDef)):
        for d in fn.decorator_list:
            if isinstance(d, ast.Call) and norm(d.func) == "builtin_glue":
                return "glue installer (runs once per library)"
    table = {
        ("_glue", "builtin_glue"): "decorator factory", ("_glue", "builtin_glue.decorate"): "registration of a glue function",
        ("_code_dispatch", "code_dispatch"): "decorator factory", ("_code_dispatch", "code_dispatch.decorate"): "creates a dispatcher",
        ("_code_dispatch", "code_dispatch.decorate.register"): "hook registration", ("_customization", "customize"): "hook registration",
        ("_customization", "yields_frames"): "decorator", ("_util", "fixup_module_metadata"): "import-time metadata fix-up",
        ("_util", "fixup_module_metadata.fix_one"): "import-time metadata fix-up",
    }
    return table.get((mod.name, q))


def _persistent_base(ctx: Ctx, mod: Mod, at: ast.AST, base: ast.AST, fn: ast.AST) -> Optional[str]:
    """is `base` (the object being mutated) persistent beyond this call? -> description"""
    root = base
    while isinstance(root, (ast.Attribute, ast.Subscript)):
        root = root.value
    if isinstance(root, ast.Call):
        return None
    if not isinstance(root, ast.Name):
        return None
    name = root.id
    b = ctx.P._local_binding(mod, at, name)
    if b is None:
        # module global, imported name or builtin
        if name in mod.imports or name in mod.defs or mod.toplevel_assign(name) is not None:
            return f"module-level object `{name}`"
        return None
    owner = mod.enclosing_def(b) if not isinstance(b, (ast.FunctionDef, ast.AsyncFunctionDef, ast.ClassDef)) else mod.enclosing_def(b)
    if isinstance(b, ast.arg):
        # parameter with a mutable default: persistent across calls
        f = owner
        if f is fn or True:
            defaults = {}
            pos = f.args.posonlyargs + f.args.args
            for a, d in zip(pos[len(pos) - len(f.args.defaults):], f.args.defaults):
                defaults[a.arg] = d
            for a, d in zip(f.args.kwonlyargs, f.args.kw_defaults):
                if d is not None:
                    defaults[a.arg] = d
            d = defaults.get(name)
            if d is not None and isinstance(d, (ast.List, ast.Dict, ast.Set, ast.Call)):
                return f"mutable default of parameter `{name}`"
        if name == "self" and isinstance(mod.parent_of(f), ast.ClassDef) and any("local" in norm(x) for x in mod.parent_of(f).bases):
            return "thread-local instance state"
        return None
    # free variable bound in an enclosing registration-time function: lives as long as the registered closure
    if owner is not None and owner is not fn and _registration_time(mod, owner):
        return f"closure variable `{name}` of {mod.qualname_of(owner)} (lives as long as the registered hook)"
    return None


def _sink_declared_scalar(mod: Mod, sink: str, key_only: bool = False) -> bool:
    """`module-level object `x`` whose annotation (`x: Dict[int, Tuple[CodeType, Tuple[Rec, ...]]] = {}`), with module-level type
    aliases resolved, mentions only scalar types, code objects and immutable containers of those"""
    import re as _re
    from ..taint import _ScalarAnn
    m = _re.match(r"module-level object `(\w+)`", sink)
    if not m:
        return False
    name = m.group(1)
    ann = [n.annotation for n in mod.tree.body if isinstance(n, ast.AnnAssign) and isinstance(n.target, ast.Name) and n.target.id == name]
    if len(ann) != 1:
        return False
    aliases = {n.targets[0].id: n.value for n in mod.tree.body if isinstance(n, ast.Assign) and len(n.targets) == 1 and isinstance(n.targets[0], ast.Name)
               and isinstance(n.value, (ast.Subscript, ast.Name, ast.Attribute))}

    class R(ast.NodeTransformer):
        depth = 0

        def visit_Name(self, x: ast.Name):
            if x.id in aliases and self.depth < 5:
                self.depth += 1
                r = self.visit(copy.deepcopy(aliases[x.id]))
                self.depth -= 1
                return r
            return x
    import copy
    a = R().visit(copy.deepcopy(ann[0]))
    if isinstance(a, ast.Constant) and isinstance(a.value, str):
        try:
            a = R().visit(ast.parse(a.value, mode="eval").body)
        except SyntaxError:
            return False
    if not (isinstance(a, ast.Subscript) and ast.unparse(a.value).split(".")[-1] in ("Dict", "dict", "List", "list", "Set", "set", "DefaultDict", "OrderedDict", "Deque", "WeakValueDictionary", "IdentityDict", "MutableMapping", "Mapping")):
        return False
    args = list(a.slice.elts) if isinstance(a.slice, ast.Tuple) else [a.slice]
    sc = _ScalarAnn()
    if key_only:
        return len(args) == 2 and sc._ok(args[0])
    return bool(args) and all(sc._ok(x) for x in args)


def esc1(ctx: Ctx) -> None:
    """ESC-1 no target-derived value reaches a persistent sink during an extraction"""
    n_sites = 0
    n_fn = 0
    for mod in ctx.P.analysed_mods():
        if mod.name in ("_version", "__init__", "lowlevel"):
            continue
        ctx.R.saw(mod)
        for q, fn in mod.defs.items():
            if not isinstance(fn, (ast.FunctionDef, ast.AsyncFunctionDef)):
                continue
            for d in fn.decorator_list:
                dn = norm(d.func) if isinstance(d, ast.Call) else norm(d)
                if dn.split(".")[-1] in ("lru_cache", "cache", "cached_property"):
                    import re as _re
                    from ..taint import _ScalarAnn
                    scal = _ScalarAnn()
                    anns = [ast.unparse(a.annotation).strip("'\"") if a.annotation is not None else "" for a in fn.args.posonlyargs + fn.args.args + fn.args.kwonlyargs if a.arg not in ("self", "cls")]
                    if anns and all(scal.match(a_) for a_ in anns):
                        ctx.R.ok("ESC-1", f"{mod.name}.{q}: @{dn} over {anns}", "memo keyed by immutable values / code objects: nothing of the observed program's state is retained")
                        continue
                    if not _registration_time(mod, fn):
                        ctx.R.fail("ESC-1", mod, fn, f"`@{dn}` memoises a function that receives extraction targets: its arguments and results are retained after the Stack is dropped",
                                   construct=f"@{dn} on {q}")
            if _registration_time(mod, fn):
                continue
            n_fn += 1
            clean = CLEAN_PARAMS.get((mod.name, q), (set(), ""))[0]
            # closures inherit the taint of the enclosing extraction-time function
            inherited: Set[str] = set()
            enc = mod.enclosing_def(fn)
            while enc is not None and not isinstance(enc, ast.Lambda):
                if not _registration_time(mod, enc):
                    inherited |= tainted_names(enc, CLEAN_PARAMS.get((mod.name, mod.qualname_of(enc)), (set(), ""))[0])
                enc = mod.enclosing_def(enc)
            t = tainted_names(fn, clean, inherited)
            globs = {nm for n in walk_scope(fn) if isinstance(n, ast.Global) for nm in n.names}
            for n in walk_scope(fn):
                sink = None
                val = None
                if isinstance(n, (ast.Assign, ast.AugAssign, ast.AnnAssign)):
                    tgts = n.targets if isinstance(n, ast.Assign) else [n.target]
                    val = n.value
                    for tg in tgts:
                        for x in ([tg] + (list(tg.elts) if isinstance(tg, (ast.Tuple, ast.List)) else [])):
                            if isinstance(x, ast.Name) and x.id in globs:
                                sink = f"global `{x.id}`"
                            elif isinstance(x, (ast.Attribute, ast.Subscript)):
                                p = _persistent_base(ctx, mod, n, x.value, fn)
                                if p:
                                    sink = p
                elif isinstance(n, ast.Call) and isinstance(n.func, ast.Attribute) and n.func.attr in MUTATORS:
                    p = _persistent_base(ctx, mod, n, n.func.value, fn)
                    if p:
                        sink = p
                        val = ast.Tuple(elts=list(n.args) + [k.value for k in n.keywords], ctx=ast.Load())
                elif isinstance(n, (ast.Import, ast.ImportFrom)) and any((a.asname or a.name.split(".")[0]) in globs for a in n.names):
                    sink = "global rebinding through import"
                    val = None
                if sink is None:
                    continue
                n_sites += 1
                # X.setdefault(key, value) / X[key] = value into a mapping whose *key* type is scalar (code objects, numbers, strings):
                # when only the key is target-derived, what is kept is a key of that kind
                key_only = False
                if isinstance(n, ast.Call) and n.func.attr in ("setdefault", "__setitem__") and len(n.args) == 2 and expr_tainted(n.args[0], t) and not expr_tainted(n.args[1], t):
                    key_only = _sink_declared_scalar(mod, sink, key_only=True)
                if val is not None and expr_tainted(val, t) and (key_only or _sink_declared_scalar(mod, sink)):
                    ctx.R.ok("ESC-1", f"{mod.name}.{q}: {norm(n)[:70]}", f"{sink} is declared to hold only numbers / flags / strings / code objects (its annotation, aliases resolved): "
                             "nothing of the observed program's state fits there")
                elif val is not None and expr_tainted(val, t):
                    ctx.R.fail("ESC-1", mod, n, f"a value derived from the extraction target is stored into {sink}: stackscope keeps a reference to the target's frames/managers after the result is dropped",
                               construct=norm(n)[:160])
                else:
                    ctx.R.ok("ESC-1", f"{mod.name}.{q}: {norm(n)[:70]}", f"{sink}; stored value is not target-derived")
    ctx.R.note(f"ESC-1: {n_fn} extraction-time functions scanned, {n_sites} persistent store sites")
    if n_sites < 6:
        raise AnalysisError(f"ESC-1: only {n_sites} persistent store sites found (>= 6 confirmed by hand)")


def esc2(ctx: Ctx) -> None:
    """ESC-2 nothing target-derived is resumed / closed / advanced"""
    n = 0
    for mod in ctx.P.analysed_mods():
        for q, fn in mod.defs.items():
            if not isinstance(fn, (ast.FunctionDef, ast.AsyncFunctionDef)):
                continue
            fresh = fresh_names(fn)
            enc = mod.enclosing_def(fn)
            while enc is not None and not isinstance(enc, ast.Lambda):
                fresh.update(fresh_names(enc))
                enc = mod.enclosing_def(enc)
            for c in calls_in(fn, scope_only=True):
                if isinstance(c.func, ast.Attribute) and c.func.attr in RESUMERS:
                    recv = c.func.value
                    root = recv
                    while isinstance(root, (ast.Attribute, ast.Subscript, ast.Call)):
                        root = root.func if isinstance(root, ast.Call) else root.value
                    if c.func.attr == "clear" and not (isinstance(recv, ast.Attribute) and "frame" in norm(recv)) and not (isinstance(root, ast.Name) and "frame" in root.id):
                        continue  # dict/list clear
                    if c.func.attr == "close" and isinstance(root, ast.Name) and root.id in ("f", "fh", "file"):
                        continue
                    n += 1
                    if isinstance(root, ast.Name) and root.id in fresh:
                        ctx.R.ok("ESC-2", f"{mod.name}.{q}: {norm(c)[:60]}", "receiver is an object this function created itself")
                    else:
                        ctx.R.fail("ESC-2", mod, c, f"`.{c.func.attr}()` is called on an object that stackscope did not create itself: resuming/closing an extraction target changes its subsequent behaviour")
                elif isinstance(c.func, ast.Attribute) and c.func.attr in ("exception", "result", "set_result", "set_exception", "cancel", "uncancel") and not c.args \
                        and isinstance(c.func.value, ast.Name) and c.func.value.id in [a.arg for a in fn.args.args] and c.func.value.id not in fresh:
                    # future / task protocol on an object handed to a hook: .exception() / .result() mark the failure as retrieved,
                    # cancel() changes the task
                    n += 1
                    ctx.R.fail("ESC-2", mod, c, f"`.{c.func.attr}()` is called on `{c.func.value.id}`, an object of the observed program handed to this hook: on a task / future it changes its state "
                               "(a failed task's exception counts as retrieved: the loop's 'exception was never retrieved' report is lost; cancel() cancels it)")
                elif isinstance(c.func, ast.Name) and c.func.id in ("next", "anext"):
                    n += 1
                    a0 = c.args[0] if c.args else None
                    gs = [norm(g) for g, pol in guards_of(mod, c, fn) if pol]
                    if isinstance(a0, ast.Name) and a0.id in fresh:
                        ctx.R.ok("ESC-2", f"{mod.name}.{q}: {norm(c)}", "iterator created in this function")
                    elif isinstance(a0, (ast.GeneratorExp, ast.ListComp)) or (isinstance(a0, ast.Call) and isinstance(a0.func, ast.Name) and a0.func.id in ("iter", "reversed", "enumerate", "zip", "filter", "map")):
                        ctx.R.ok("ESC-2", f"{mod.name}.{q}: {norm(c)[:60]}", "next() of an iterator built on the spot (a generator expression / iter(...)), not of a stack item")
                    elif isinstance(a0, ast.Call) and ctx.P.resolve_call(mod, a0).is_pkg("_extract", "extract_iter"):
                        ctx.R.ok("ESC-2", f"{mod.name}.{q}: {norm(c)}", "the engine's own generator")
                    elif any(g.startswith("isinstance(") and "FrameIterator" in g for g in gs):
                        ctx.R.ok("ESC-2", f"{mod.name}.{q}: {norm(c)}", "only under isinstance(..., FrameIterator)")
                    elif mod.name == "_customization" and q == "FrameIterator.__next__":
                        ctx.R.ok("ESC-2", f"{mod.name}.{q}: {norm(c)}", "FrameIterator is the marker type for iterators that are meant to be stepped")
                    elif isinstance(a0, ast.Name) and a0.id in ("it",) and mod.name == "_lowlevel" and q in ("_parse_varint",):
                        ctx.R.ok("ESC-2", f"{mod.name}.{q}: {norm(c)}", "byte iterator over co_exceptiontable passed by _parse_exception_table")
                    elif isinstance(a0, ast.Name) and any(isinstance(st, ast.Assign) and norm(st.targets[0]) == a0.id and isinstance(st.value, ast.Call)
                                                         and ctx.P.resolve_call(mod, st.value).is_pkg("_extract", "extract_iter") for st in walk_scope(fn)):
                        ctx.R.ok("ESC-2", f"{mod.name}.{q}: {norm(c)}", "the engine's own generator")
                    elif isinstance(a0, ast.Name) and a0.id in [a.arg for a in fn.args.args] and mod.name == "_extract":
                        # a private helper: judge by what its call sites pass
                        pi = [a.arg for a in fn.args.args].index(a0.id)
                        sites = [cc for cc in ast.walk(mod.tree) if isinstance(cc, ast.Call) and isinstance(cc.func, ast.Name) and cc.func.id == fn.name and len(cc.args) > pi]
                        verdicts = []
                        for cc in sites:
                            cf = mod.enclosing_def(cc)
                            gs2 = [norm(gx) for gx, pol in guards_of(mod, cc, cf)] if cf is not None else []
                            verdicts.append(any(g.startswith(f"isinstance({norm(cc.args[pi])},") and "FrameIterator" in g for g in gs2))
                        if sites and all(verdicts):
                            ctx.R.ok("ESC-2", f"{mod.name}.{q}: {norm(c)}", f"every call site of {fn.name} passes a value tested to be a FrameIterator")
                        elif sites and not any(verdicts):
                            ctx.R.fail("ESC-2", mod, c, f"next() is applied to a parameter of {fn.name}, and a call site passes a value that was not tested to be a FrameIterator "
                                       "(a generator that is a stack item would be advanced)")
                        else:
                            ctx.R.undecided("ESC-2", f"cannot trace what reaches next({a0.id}) in {q}")
                    else:
                        ctx.R.fail("ESC-2", mod, c, "next() is applied to a value that may be an extraction target (a generator that is a stack item would be advanced)")
    # iteration over an unwrap result in extract_iter only as a Sequence
    mod = ctx.P.mod("_extract")
    fn = mod.fn("extract_iter")
    uw = [s for s in ast.walk(fn) if isinstance(s, ast.Assign) and isinstance(s.value, ast.Call) and ctx.P.resolve_call(mod, s.value).is_pkg("_customization", "unwrap_stackitem")]
    if len(uw) != 1:
        raise AnalysisError("ESC-2: unwrap_stackitem assignment vanished")
    uvar = norm(uw[0].targets[0])
    for s in ast.walk(fn):
        if isinstance(s, ast.Call) and norm(s.func) in ("reversed", "iter", "list", "tuple") and s.args and norm(s.args[0]) == uvar:
            from ..util import implies_sequence
            gpos = [g for g, pol in guards_of(mod, s, fn) if pol] + [g.operand for g, pol in guards_of(mod, s, fn)
                                                                  if not pol and isinstance(g, ast.UnaryOp) and isinstance(g.op, ast.Not)]
            if any(implies_sequence(g, uvar) for g in gpos):
                ctx.R.ok("ESC-2", f"extract_iter: {norm(s)} only under isinstance(..., Sequence)")
            else:
                ctx.R.fail("ESC-2", mod, s, "an unwrap result is iterated without having been tested to be a Sequence: a generator returned as 'the next stack item' would be consumed")
        if isinstance(s, (ast.For,)) and norm(s.iter) == uvar:
            ctx.R.fail("ESC-2", mod, s, "an unwrap result is iterated directly")
    if n < 8:
        raise AnalysisError(f"ESC-2: {n} resume-capable calls found (8 confirmed by hand)")


def snap8(ctx: Ctx) -> None:
    """SNAP-8 the number of value-stack slots read through ctypes is bounded.  Where the top of the stack is computed from the
    *raw* stacktop field (a word of memory that a racing thread may be rewriting, or that may belong to a moved frame), an
    assertion that it does not exceed the end of the frame's stack area lies on every path from that computation to the
    construction of the `py_object * n` array: an unbounded n reads PyObject* values from beyond the frame (a crash, not an
    exception).  The branch that derives the top from the exception table's depth (running frames) is bounded by construction"""
    mod = ctx.P.mod("_lowlevel_cpython_311")
    fn = mod.fn("inspect_frame")
    g = ctx.cfg(fn)
    arrays = [a for a in walk_scope(fn) if isinstance(a, ast.Assign) and isinstance(a.value, ast.Call) and isinstance(a.value.func, ast.Attribute) and a.value.func.attr == "from_address"
              and isinstance(a.value.func.value, ast.BinOp) and isinstance(a.value.func.value.op, ast.Mult) and "py_object" in norm(a.value.func.value.left)]
    if len(arrays) != 1:
        ctx.R.undecided("SNAP-8", f"{len(arrays)} `(ctypes.py_object * n).from_address(...)` constructions in inspect_frame (1 expected)")
        return
    arr = arrays[0]
    nvar = norm(arr.value.func.value.right)
    nas = [a for a in walk_scope(fn) if isinstance(a, ast.Assign) and len(a.targets) == 1 and norm(a.targets[0]) == nvar]
    raws = {norm(a.targets[0]) for a in walk_scope(fn) if isinstance(a, ast.Assign) and len(a.targets) == 1 and isinstance(a.value, ast.Attribute) and a.value.attr == "stacktop"}
    if len(nas) != 1 or not raws:
        ctx.R.undecided("SNAP-8", f"the slot count `{nvar}` / the raw stacktop read were not found")
        return
    tops = {x.id for x in ast.walk(nas[0].value) if isinstance(x, ast.Name)}
    derived = [a for a in walk_scope(fn) if isinstance(a, ast.Assign) and len(a.targets) == 1 and norm(a.targets[0]) in tops
               and any(isinstance(x, ast.Name) and x.id in raws for x in ast.walk(a.value))]
    if not derived:
        ctx.R.undecided("SNAP-8", "no stack-top computation from the raw stacktop field found")
        return
    for d in derived:
        tname = norm(d.targets[0])
        bounds = []
        for a in walk_scope(fn):
            if isinstance(a, ast.Assert):
                for c in ast.walk(a.test):
                    if isinstance(c, ast.Compare):
                        opers = [c.left] + list(c.comparators)
                        for i, o_ in enumerate(opers[:-1]):
                            if norm(o_) == tname and isinstance(c.ops[i], (ast.LtE, ast.Lt)):
                                bounds.append(a)
                        for i, o_ in enumerate(opers[1:]):
                            if norm(o_) == tname and isinstance(c.ops[i], (ast.GtE, ast.Gt)):
                                bounds.append(a)
        dn, an = g.node_of(d), g.node_of(arr)
        if not bounds:
            ctx.R.fail("SNAP-8", mod, d, f"`{tname}` is computed from the raw stacktop field and no assertion bounds it from above before `{nvar}` slots are read through ctypes: a stale or racing "
                       "stacktop makes the reader dereference PyObject* values beyond the frame's stack area (interpreter crash)", construct=f"unbounded {tname} from raw stacktop")
        elif an.idx not in g.reachable_from(dn, avoid={g.node_of(b).idx for b in bounds} | {g.node_of(l_).idx for l_ in mod.ancestors(d) if isinstance(l_, (ast.For, ast.While))}):
            # (within one attempt: a path that leaves through the retry loop's header computes the top afresh)
            ctx.R.ok("SNAP-8", f"{tname} (from raw stacktop) is bounded from above on every path to the py_object array", norm(bounds[0].test)[:70])
        else:
            ctx.R.fail("SNAP-8", mod, d, f"the upper bound on `{tname}` is not asserted on every path from its computation to the py_object array", construct=f"{tname} bound not on all paths")



def run1_310(ctx: Ctx) -> None:
    """RUN-1 the 3.9 / 3.10 frame reader (a module the 3.12 suite never imports) treats running and suspended frames consistently.
    `f_stacktop == 0` marks a running frame.  (a) The top of the valid stack is computed from the raw f_stacktop pointer only
    where that pointer is non-null, and that computation is bounded from above before memory is read (as SNAP-8); (b) the same
    test, with the same polarity, chooses between materialising objects from raw addresses (running: ctypes.cast, after trimming
    to the depth the active blocks guarantee) and matching addresses against gc.get_referents(frame) (suspended); (c) max() over
    the active blocks is taken only when there are some"""
    from .opcodes import path_guards_of
    mod = ctx.P.mod("_lowlevel_cpython_310")
    fn = mod.fn("inspect_frame")

    def pol_of_running(node: ast.AST) -> Optional[bool]:
        """polarity under which `node` runs with respect to "f_stacktop == 0" (True: running frames), None if not guarded by it"""
        out = None
        for g_, pol in path_guards_of(mod, node, fn):
            while isinstance(g_, ast.UnaryOp) and isinstance(g_.op, ast.Not):
                g_, pol = g_.operand, not pol
            if isinstance(g_, ast.Compare) and len(g_.ops) == 1 and isinstance(g_.left, ast.Attribute) and g_.left.attr == "f_stacktop" and isinstance(g_.comparators[0], ast.Constant) and g_.comparators[0].value == 0:
                if isinstance(g_.ops[0], ast.Eq):
                    out = pol
                elif isinstance(g_.ops[0], ast.NotEq):
                    out = not pol
            elif isinstance(g_, ast.Attribute) and g_.attr == "f_stacktop":
                out = not pol      # truthiness of the pointer: non-null
        return out

    raw = [a for a in walk_scope(fn) if isinstance(a, ast.Assign) and len(a.targets) == 1 and isinstance(a.targets[0], ast.Name)
           and any(isinstance(x, ast.Attribute) and x.attr == "f_stacktop" for x in ast.walk(a.value))]
    refs = [c for c in ast.walk(fn) if isinstance(c, ast.Call) and norm(c.func) == "gc.get_referents"]
    casts = [c for c in ast.walk(fn) if isinstance(c, ast.Call) and norm(c.func) == "ctypes.cast"]
    if len(raw) != 1 or not refs or not casts:
        ctx.R.undecided("RUN-1", f"anchors not found: {len(raw)} computations from f_stacktop, {len(refs)} get_referents, {len(casts)} ctypes.cast")
        return
    p_raw = pol_of_running(raw[0])
    if p_raw is None:
        ctx.R.undecided("RUN-1", "the stack top is computed from f_stacktop outside any test of that pointer")
    elif p_raw:
        ctx.R.fail("RUN-1", mod, raw[0], "the top of the valid stack is computed from the raw f_stacktop pointer exactly when that pointer is NULL (a running frame), and set to the end of the stack area when "
                   "it is not: every suspended frame is read to the end of its stack area (stale slots), every running frame fails the bounds assertion", construct="f_stacktop test inverted at the stack-top computation")
    else:
        ctx.R.ok("RUN-1", "the stack top comes from f_stacktop only where that pointer is non-null")
        # bounded before the read (SNAP-8 for this reader)
        tname = norm(raw[0].targets[0])
        blk = mod.parent_of(raw[0])
        seq = [b_ for b_ in (getattr(blk, "body", []), getattr(blk, "orelse", [])) if raw[0] in b_]
        after = seq[0][seq[0].index(raw[0]) + 1:] if seq else []
        ub = False
        for a in after:
            if isinstance(a, ast.Assert):
                for c in ast.walk(a.test):
                    if isinstance(c, ast.Compare):
                        opers = [c.left] + list(c.comparators)
                        ub = ub or any(norm(o_) == tname and isinstance(c.ops[i], (ast.LtE, ast.Lt)) for i, o_ in enumerate(opers[:-1])) \
                            or any(norm(o_) == tname and isinstance(c.ops[i], (ast.GtE, ast.Gt)) for i, o_ in enumerate(opers[1:]))
        if ub:
            ctx.R.ok("RUN-1", f"{tname} (from raw f_stacktop) is bounded from above right after it is computed")
        else:
            ctx.R.fail("RUN-1", mod, raw[0], f"`{tname}` is computed from the raw f_stacktop pointer and not bounded from above before the words up to it are read from memory: a stale pointer makes the reader "
                       "walk beyond the frame object", construct=f"unbounded {tname} from raw f_stacktop (3.9/3.10 reader)")
    for what, calls, want in (("gc.get_referents(frame) matching", refs, False), ("ctypes.cast materialisation", casts, True)):
        p_ = pol_of_running(calls[0])
        if p_ is None:
            ctx.R.undecided("RUN-1", f"{what} is not under a test of f_stacktop")
        elif p_ != want:
            ctx.R.fail("RUN-1", mod, calls[0], f"{what} is used for {'running' if p_ else 'suspended'} frames; it is the method for {'running' if want else 'suspended'} ones (get_referents does not walk the value "
                       "stack of a running frame; raw addresses of a suspended frame's dead slots are dangling): contexts of every frame of the affected kind are wrong or the interpreter crashes",
                       construct=f"{what} under the wrong f_stacktop branch")
        else:
            ctx.R.ok("RUN-1", f"{what} is used for {'running' if want else 'suspended'} frames")
    for mx in [c for c in ast.walk(fn) if isinstance(c, ast.Call) and norm(c.func) == "max" and "blocks" in norm(c) and not any(k.arg == "default" for k in c.keywords)]:
        gs = []
        for g_, pol in path_guards_of(mod, mx, fn):
            while isinstance(g_, ast.UnaryOp) and isinstance(g_.op, ast.Not):
                g_, pol = g_.operand, not pol
            if norm(g_) in ("details.blocks", "len(details.blocks)", "len(details.blocks) > 0"):
                gs.append(pol)
        if gs and not gs[-1]:
            ctx.R.fail("RUN-1", mod, mx, "max() over the active blocks is evaluated exactly when there are none (ValueError for every running frame without an active block; the trim limit is 0 when blocks "
                       "exist, so every manager is lost)", construct="max(... details.blocks) under `not details.blocks`")
        elif gs:
            ctx.R.ok("RUN-1", "max() over the active blocks only when there are some")
        else:
            ctx.R.undecided("RUN-1", "max() over details.blocks without default is not guarded by their presence")



def esc4(ctx: Ctx) -> None:
    """ESC-4 a caught exception is not parked in a local variable that outlives its handler.  `except E as ex:` unbinds ex when the
    handler ends because an exception references its traceback, the traceback references this frame, and the frame references
    its locals: `saved = ex` re-creates exactly that cycle, which pins every frame in the traceback -- including the target's
    frames and the objects on their value stacks -- until a cyclic collection runs (reference counts do not return to baseline).
    Handing the exception on (appending it to the error list, storing it on the result, raising, returning) is what the
    package does everywhere and is fine"""
    n = 0
    for mod in ctx.P.analysed_mods():
        if mod.name in ("_version", "__init__", "lowlevel"):
            continue
        for q, fn in mod.defs.items():
            if not isinstance(fn, (ast.FunctionDef, ast.AsyncFunctionDef)):
                continue
            for h in [x for x in walk_scope(fn) if isinstance(x, ast.ExceptHandler) and x.name]:
                n += 1
                for a in [y for st in h.body for y in ast.walk(st) if isinstance(y, ast.Assign) and len(y.targets) == 1 and isinstance(y.targets[0], ast.Name) and isinstance(y.value, ast.Name) and y.value.id == h.name]:
                    saved = a.targets[0].id
                    cleared = [z for z in walk_scope(fn) if (isinstance(z, ast.Delete) and any(isinstance(t_, ast.Name) and t_.id == saved for t_ in z.targets))
                               or (isinstance(z, ast.Assign) and any(isinstance(t_, ast.Name) and t_.id == saved for t_ in z.targets) and isinstance(z.value, ast.Constant) and z.value.value is None and z.lineno > a.lineno)]
                    used_after = [z for z in walk_scope(fn) if isinstance(z, ast.Name) and z.id == saved and isinstance(z.ctx, ast.Load) and not any(z is w_ for st in h.body for w_ in ast.walk(st))]
                    g = ctx.cfg(fn)
                    if cleared and g.all_paths_pass(g.node_of(a), {g.exit.idx}, {g.node_of(c_).idx for c_ in cleared}):
                        ctx.R.ok("ESC-4", f"{mod.name}.{q}: `{saved} = {h.name}` is cleared on every path to the exit")
                    elif used_after:
                        ctx.R.fail("ESC-4", mod, a, f"{q} keeps the caught exception in the local `{saved}` after its handler has ended (and never clears it): exception -> traceback -> this frame -> `{saved}` "
                                   "is a reference cycle that pins the frames of the traceback, the extraction target's among them, until a cyclic garbage collection (reference counts do not return to "
                                   "baseline; __del__ / weakref callbacks of the observed program are delayed)", construct=f"{q}: {saved} = {h.name} outlives the handler")
    if n < 10:
        raise AnalysisError(f"ESC-4: only {n} named exception handlers found")
    ctx.R.ok("ESC-4", f"{n} `except ... as name` handlers", "none parks the exception in a longer-lived local")


def esc3(ctx: Ctx) -> None:
    """ESC-3 every coroutine / async generator the package instantiates for type discovery is closed on every path"""
    n = 0
    for mod in ctx.P.analysed_mods():
        for q, fn in mod.defs.items():
            if not isinstance(fn, (ast.FunctionDef, ast.AsyncFunctionDef)):
                continue
            local_async = {d.name for d in walk_scope(fn) if isinstance(d, ast.AsyncFunctionDef) and not d.decorator_list}
            objs: Dict[str, ast.AST] = {}
            for s in walk_scope(fn):
                if isinstance(s, ast.Assign) and len(s.targets) == 1 and isinstance(s.targets[0], ast.Name) and isinstance(s.value, ast.Call):
                    f = s.value.func
                    if isinstance(f, ast.Name) and f.id in local_async:
                        objs[s.targets[0].id] = s
                    elif isinstance(f, ast.Name) and f.id == "cast" and s.value.args and norm(s.value.args[0]).startswith("Coroutine"):
                        objs[s.targets[0].id] = s
            if not objs:
                continue
            g = ctx.cfg(fn)
            for name, st in objs.items():
                n += 1
                closers = set()
                # `x = name.aclose()` ... `x.send(None)` drives the close just like `name.aclose().send(None)`
                closing_aw = {norm(a_.targets[0]) for a_ in walk_scope(fn) if isinstance(a_, ast.Assign) and len(a_.targets) == 1 and isinstance(a_.targets[0], ast.Name)
                              and norm(a_.value) == f"{name}.aclose()"}
                for c in calls_in(fn, scope_only=True):
                    t = norm(c)
                    if t == f"{name}.close()" or t.startswith(f"{name}.aclose().send(") or any(t.startswith(f"{x_}.send(") for x_ in closing_aw):
                        closers.add(g.node_of(_stmt(mod, c)).idx)
                src = g.node_of(st)
                if closers and g.all_paths_pass(src, {g.exit.idx}, closers):
                    ctx.R.ok("ESC-3", f"{mod.name}.{q}: {norm(st)[:50]}", "closed on every path to the function's exit")
                else:
                    ctx.R.fail("ESC-3", mod, st, f"`{name}` (a coroutine / async generator created only to discover a type) is not closed on every path: "
                               "it is left half-run / never-awaited (RuntimeWarning, and async-generator finalizer hooks see it: the 0.2.1 regression)",
                               construct=f"{name} = {norm(st.value)[:60]} without close")
    if n < 3:
        raise AnalysisError(f"ESC-3: {n} self-made coroutine objects found (3 confirmed by hand)")


def null1(ctx: Ctx) -> None:
    """NULL-1 every materialisation of a PyObject* has a NULL guard"""
    n = 0
    m311 = ctx.P.mod("_lowlevel_cpython_311")
    fn = m311.fn("inspect_frame")
    arrs = {norm(s.targets[0]) for s in ast.walk(fn) if isinstance(s, ast.Assign) and "py_object" in norm(s.value) and ".from_address(" in norm(s.value)}
    for s in ast.walk(fn):
        if isinstance(s, ast.Subscript) and isinstance(s.ctx, ast.Load) and norm(s.value) in arrs:
            n += 1
            tries = enclosing_tries(m311, s)
            ok = tries and any(h.type is not None and "ValueError" in norm(h.type) for h in tries[0].handlers) and len(tries[0].body) == 1
            if ok:
                h = [h for h in tries[0].handlers if "ValueError" in norm(h.type)][0]
                tgt = norm(_stmt(m311, s).targets[0])
                hb_ = [x for x in h.body if not isinstance(x, (ast.Pass, ast.Assert)) and not (isinstance(x, ast.Expr) and isinstance(x.value, ast.Constant))]
                if [norm(x) for x in hb_] == [f"{tgt} = None"]:
                    ctx.R.ok("NULL-1", f"_lowlevel_cpython_311.inspect_frame: {norm(s)}", "NULL slot -> ValueError -> None")
                elif any(isinstance(x, (ast.Raise, ast.Continue, ast.Break, ast.Return)) for x in hb_) or (len(hb_) == 1 and isinstance(hb_[0], ast.Assign) and norm(hb_[0].targets[0]) == tgt):
                    ctx.R.fail("NULL-1", m311, h, "a NULL stack slot must be recorded as None")
                else:
                    ctx.R.undecided("NULL-1", f"the ValueError handler of `{norm(s)[:40]}` is not the plain `{tgt} = None`")
            else:
                ctx.R.fail("NULL-1", m311, s, "reading a py_object array element raises ValueError for a NULL PyObject*: without the handler a NULL slot aborts the inspection (and every context is lost)")
    m310 = ctx.P.mod("_lowlevel_cpython_310")
    fn = m310.fn("inspect_frame")
    for c in ast.walk(fn):
        if isinstance(c, ast.Call) and norm(c.func) == "ctypes.cast" and len(c.args) == 2 and "py_object" in norm(c.args[1]):
            n += 1
            addr = norm(c.args[0])
            p = c
            guarded = False
            for a in m310.ancestors(c):
                if isinstance(a, ast.IfExp) and norm(a.test) in (f"{addr} == 0", f"not {addr}", f"{addr} is None") and any(c is x for x in ast.walk(a.orelse)):
                    guarded = True
                if isinstance(a, ast.IfExp) and norm(a.test) in (f"{addr} != 0", addr) and any(c is x for x in ast.walk(a.body)):
                    guarded = True
            # what does a NULL word look like in the list the addresses come from?  c_size_t & co. read it as 0, c_void_p & co. as None
            reads = [x for x in ast.walk(fn) if isinstance(x, ast.Attribute) and x.attr == "value" and isinstance(x.value, ast.Call) and isinstance(x.value.func, ast.Attribute)
                     and x.value.func.attr == "from_address" and norm(x.value.func.value).startswith("ctypes.c_") and isinstance(m310.parent_of(x), (ast.ListComp, ast.GeneratorExp))]
            kinds = {norm(x.value.func.value).split(".")[-1] for x in reads}
            ptr_read = bool(kinds & {"c_void_p", "c_char_p", "c_wchar_p"})
            int_read = bool(kinds) and not ptr_read
            tests = [norm(a.test) for a in m310.ancestors(c) if isinstance(a, ast.IfExp)]
            if guarded and ptr_read and not any(t_ in (f"not {addr}", addr, f"{addr} is None", f"{addr} is not None") for t_ in tests):
                ctx.R.fail("NULL-1", m310, c, f"the stack words are read as {sorted(kinds)}, whose .value is None for a NULL pointer, but the NULL guard tests `{tests[0] if tests else '?'}`: a NULL slot "
                           "(3.9 / 3.10 push NULLs for the saved exception state of an except / finally block) passes the guard and ctypes.cast raises ValueError: the frame's contexts are lost",
                           construct="NULL guard does not match the read type of the stack words")
            elif guarded and int_read and any(t_ in (f"{addr} is None", f"{addr} is not None") for t_ in tests) and not any(t_ in (f"{addr} == 0", f"not {addr}", f"{addr} != 0", addr) for t_ in tests):
                ctx.R.fail("NULL-1", m310, c, f"the stack words are read as {sorted(kinds)} (NULL reads as 0) but the guard tests for None: address 0 is cast to py_object and dereferenced (segfault)",
                           construct="NULL guard does not match the read type of the stack words")
            elif guarded:
                ctx.R.ok("NULL-1", f"_lowlevel_cpython_310.inspect_frame: {norm(c)}", "guarded by address == 0")
            else:
                ctx.R.fail("NULL-1", m310, c, "casting address 0 to py_object and reading .value dereferences NULL (segfault)")
    if n < 2:
        raise AnalysisError("NULL-1: PyObject* materialisation sites vanished")


def _stmt(mod: Mod, n: ast.AST) -> ast.AST:
    while not isinstance(n, ast.stmt):
        n = mod.parent_of(n)
    return n


# ===================================================================== SNAP
def snap(ctx: Ctx) -> None:
    mod = ctx.P.mod("_lowlevel_cpython_311")
    fn = mod.fn("inspect_frame")
    ctx.R.saw(mod, "inspect_frame")
    g = ctx.cfg(fn)
    loops = [s for s in fn.body if isinstance(s, ast.For) and norm(s.iter).startswith("range(")
             and any(isinstance(x, ast.Try) for x in s.body) and any(isinstance(x, ast.Assign) and norm(x.value) == "frame.f_lasti" for x in s.body)]
    if len(loops) != 1:
        raise AnalysisError("SNAP: retry loop vanished")
    loop = loops[0]
    tries = [s for s in loop.body if isinstance(s, ast.Try)]
    if len(tries) != 1:
        raise AnalysisError("SNAP: the try of the retry loop vanished")
    tr = tries[0]
    # variables holding raw views
    iframe_vars = {norm(s.targets[0]) for s in ast.walk(fn) if isinstance(s, ast.Assign) and norm(s.value).endswith(".f_frame.contents")}
    arr_vars = {norm(s.targets[0]) for s in ast.walk(fn) if isinstance(s, ast.Assign) and ".from_address(" in norm(s.value) and "py_object" in norm(s.value)}
    if not iframe_vars or not arr_vars:
        raise AnalysisError("SNAP: raw view variables vanished")
    raw_nodes: List[ast.AST] = []
    for n in ast.walk(fn):
        if isinstance(n, ast.Attribute) and norm(n).endswith(".f_frame.contents"):
            raw_nodes.append(n)
        elif isinstance(n, ast.Attribute) and isinstance(n.value, ast.Name) and n.value.id in iframe_vars and isinstance(n.ctx, ast.Load):
            raw_nodes.append(n)
        elif isinstance(n, ast.Call) and norm(n.func) == "ctypes.addressof" and n.args and norm(n.args[0]) in iframe_vars:
            raw_nodes.append(n)
        elif isinstance(n, ast.Call) and ".from_address" in norm(n.func) and "py_object" in norm(n.func):
            raw_nodes.append(n)
        elif isinstance(n, ast.Subscript) and norm(n.value) in arr_vars and isinstance(n.ctx, ast.Load):
            raw_nodes.append(n)
        elif isinstance(n, ast.Call) and norm(n.func) == "ctypes.cast":
            raw_nodes.append(n)
    # SNAP-1
    for n in raw_nodes:
        if in_body(tr.body, n, mod):
            ctx.R.ok("SNAP-1", f"raw read `{norm(n)[:60]}` inside the consistency-checked try")
        else:
            ctx.R.fail("SNAP-1", mod, n, "a read through the interpreter-frame pointer (which dangles if the frame finishes on another thread) lies outside the retry loop's try: "
                       "it is neither re-validated nor retried", construct=f"raw read {norm(n)[:80]}")
    if len(raw_nodes) < 9:
        raise AnalysisError(f"SNAP-1: {len(raw_nodes)} raw reads found (9 confirmed by hand)")
    # SNAP-2
    samples = [s for s in loop.body if isinstance(s, ast.Assign) and norm(s.value) == "frame.f_lasti"]
    if len(samples) != 1 or loop.body.index(samples[0]) > loop.body.index(tr):
        ctx.R.fail("SNAP-2", mod, loop, "the validity token (frame.f_lasti) must be sampled in each attempt before the first raw read", construct="lasti_before = frame.f_lasti")
        return
    tok = norm(samples[0].targets[0])
    ctx.R.ok("SNAP-2", f"{tok} = frame.f_lasti sampled at the start of each attempt, before the try")
    # the handler-depth lookup uses the sampled token
    # SNAP-3 rechecks
    def is_recheck(s: ast.AST) -> bool:
        return isinstance(s, ast.Assert) and norm(s.test) in (f"frame.f_lasti == {tok}", f"{tok} == frame.f_lasti")
    rechecks = {g.node_of(s).idx for s in ast.walk(tr) if is_recheck(s) and in_body(tr.body, s, mod)}
    slot_reads = [n for n in raw_nodes if isinstance(n, ast.Subscript)]
    header_reads = [n for n in raw_nodes if not isinstance(n, ast.Subscript)]
    # acceptance: the first statement after the try in the loop body
    after = loop.body[loop.body.index(tr) + 1:]
    if not after:
        raise AnalysisError("SNAP: no acceptance statement after the try")
    accept = g.node_of(after[0])
    for r in slot_reads:
        rn = g.node_of(_stmt(mod, r))
        okh = all(g.all_paths_pass(g.node_of(_stmt(mod, h)), {rn.idx}, rechecks) for h in header_reads if _stmt(mod, h) is not _stmt(mod, r))
        oki = g.all_paths_pass(rn, {rn.idx}, rechecks)
        # ... and the re-check is the last thing before the read: from the head of the slot loop (the point reached after the
        # previous iteration's append, a call and hence a possible thread switch) no path reaches the read without one
        slot_loops = [a for a in mod.ancestors(_stmt(mod, r)) if isinstance(a, ast.For) and a is not loop]
        if slot_loops:
            oki = oki and g.all_paths_pass(g.node_of(slot_loops[0]), {rn.idx}, rechecks)
        oka = g.all_paths_pass(rn, {accept.idx}, rechecks)
        if okh and oki and oka:
            ctx.R.ok("SNAP-3", f"slot read `{norm(r)}`", "re-validated after the header reads, before each iteration's read, and before the snapshot is accepted")
        else:
            which = [] if okh else ["between the raw header reads and the first slot read"]
            which += [] if oki else ["between consecutive slot reads"]
            which += [] if oka else ["between the last slot read and the acceptance of the snapshot"]
            ctx.R.fail("SNAP-3", mod, r, "f_lasti is not re-checked " + "; ".join(which) + ": a frame that moved on while being read yields a stale PyObject* (crash) or an inconsistent snapshot that is accepted",
                       construct=f"recheck around {norm(r)}: missing " + ", ".join(which))
    for h in header_reads:
        hn = g.node_of(_stmt(mod, h))
        if not g.all_paths_pass(hn, {accept.idx}, rechecks):
            ctx.R.fail("SNAP-3", mod, h, "a raw header read can reach the acceptance of the snapshot without any f_lasti re-check", construct=f"no recheck after {norm(h)[:60]}")
    ctx.R.ok("SNAP-3", f"{len(rechecks)} re-check assertion(s) in the try body")
    # SNAP-4 the handler never falls through to acceptance
    hs = [h for h in tr.handlers if h.type is not None and "AssertionError" in norm(h.type)]
    if not hs:
        ctx.R.fail("SNAP-4", mod, tr, "a failed consistency assertion is not caught by the retry loop: a concurrent modification becomes an InspectionWarning instead of a retry", construct="except AssertionError")
    else:
        hn = g.node_of(hs[0])
        header = g.node_of(loop)
        if g.all_paths_pass(hn, {accept.idx, g.exit.idx}, {header.idx}):
            ctx.R.ok("SNAP-4", "the AssertionError handler either re-raises or starts a new attempt; it cannot fall through to acceptance")
        else:
            ctx.R.fail("SNAP-4", mod, hs[0], "after a failed consistency assertion the handler can fall through to the acceptance of the (inconsistent) snapshot", construct="AssertionError handler falls through")
        for r in contains(hs[0], ast.Raise):
            gs = guards_of(mod, r, fn)
            txt = [(norm(gx), pol) for gx, pol in gs]
            if (f"frame.f_lasti == {tok}", True) in txt or (f"frame.f_lasti != {tok}", False) in txt:
                ctx.R.ok("SNAP-4", "re-raise only when f_lasti is unchanged (a genuine mismatch, not a race)")
    # SNAP-5 bounded, exhaustion is a rejection
    it = loop.iter
    if isinstance(it, ast.Call) and len(it.args) == 1 and isinstance(it.args[0], ast.Constant) and isinstance(it.args[0].value, int) and 1 <= it.args[0].value <= 1000:
        ctx.R.ok("SNAP-5", f"retry loop bounded by the literal {it.args[0].value}")
    else:
        ctx.R.fail("SNAP-5", mod, loop, "the retry loop must be bounded by a literal", construct=norm(it))
    if loop.orelse and isinstance(loop.orelse[-1], ast.Raise):
        ctx.R.ok("SNAP-5", "exhausting the attempts raises (rejection)")
    else:
        locs = {x.id for x in walk_scope(fn) if isinstance(x, ast.Name) and isinstance(x.ctx, ast.Store)}
        bad = [nm for node, nm in definite_assignment(g, fn, locs) if node.lineno > loop.end_lineno]
        if bad:
            ctx.R.ok("SNAP-5", f"exhausting the attempts reaches a read of unassigned `{bad[0]}` (UnboundLocalError: an implicit rejection)")
            ctx.R.note("SNAP-5: rejection on exhaustion is only implicit (UnboundLocalError)")
        else:
            ctx.R.fail("SNAP-5", mod, loop, "when every attempt was inconsistent the function continues with the last (inconsistent) attempt instead of rejecting it", construct="for-else raise")
    # SNAP-7 the depth to which a *running* frame's stack is trusted: the depth of the covering handler, and 0 when no
    # handler covers the position (anything larger reads slots that may hold stale pointers)
    hd_assigns = [st for st in ast.walk(loop) if isinstance(st, ast.Assign) and norm(st.targets[0]) == "handler_depth"]
    if hd_assigns:
        vals = sorted(norm(st.value) for st in hd_assigns)
        consts = [st for st in hd_assigns if isinstance(st.value, (ast.Constant, ast.UnaryOp))]
        if any(norm(st.value) != "0" for st in consts):
            bad = [st for st in consts if norm(st.value) != "0"][0]
            ctx.R.fail("SNAP-7", mod, bad, f"when no exception-table entry covers the position the trusted stack depth must be 0, the code uses {norm(bad.value)}: slots above the valid stack of a running frame are dereferenced",
                       construct=f"handler_depth default {norm(bad.value)}")
        elif not consts:
            # the lookup may live in a helper that returns the depth, and a constant when nothing covers the position
            helper_ok = None
            for st in hd_assigns:
                if isinstance(st.value, ast.Call) and isinstance(st.value.func, ast.Name):
                    hdef = [d for d in ast.walk(mod.tree) if isinstance(d, ast.FunctionDef) and d.name == st.value.func.id]
                    if hdef:
                        rets = [r for r in ast.walk(hdef[0]) if isinstance(r, ast.Return) and isinstance(r.value, (ast.Constant, ast.UnaryOp))]
                        helper_ok = bool(rets) and all(norm(r.value) == "0" for r in rets)
                        if rets and not helper_ok:
                            ctx.R.fail("SNAP-7", mod, rets[0], f"when no exception-table entry covers the position the trusted stack depth must be 0, {hdef[0].name} returns {norm(rets[0].value)}",
                                       construct=f"handler_depth default {norm(rets[0].value)}")
            if helper_ok:
                ctx.R.ok("SNAP-7", "handler_depth defaults to 0 when no entry covers the position (in a helper)")
            elif helper_ok is None:
                ctx.R.undecided("SNAP-7", "cannot find the default of handler_depth for positions that no exception-table entry covers")
        else:
            ctx.R.ok("SNAP-7", "handler_depth defaults to 0 when no entry covers the position")
        use = [st for st in ast.walk(tr) if isinstance(st, ast.Assign) and norm(st.targets[0]) == "stack_top_offset" and "handler_depth" in norm(st.value)]
        if len(use) == 1:
            # evaluated numerically (engine MINI) at two points with distinct, co-prime-ish values: any way of writing the sum will do
            from ..minieval import Mini, Raised, Unsupported
            verdict = True
            for ss_, ws_, hd_ in ((1000, 8, 3), (4096, 4, 7)):
                env_ = {"stack_start_offset": ss_, "wordsize": ws_, "handler_depth": hd_}
                for a_ in walk_scope(fn):      # locals the expression names that are themselves simple arithmetic over these
                    if isinstance(a_, ast.Assign) and len(a_.targets) == 1 and isinstance(a_.targets[0], ast.Name) and a_ is not use[0] and a_.lineno < use[0].lineno \
                            and {n_.id for n_ in ast.walk(a_.value) if isinstance(n_, ast.Name)} <= set(env_) and not any(isinstance(c_, ast.Call) for c_ in ast.walk(a_.value)) and a_.targets[0].id not in ("stack_start_offset", "wordsize", "handler_depth"):
                        try:
                            env_[a_.targets[0].id] = Mini(dict(env_)).expr(a_.value)
                        except (Unsupported, Raised, Exception):
                            pass
                try:
                    got_ = Mini(env_).expr(use[0].value)
                except (Unsupported, Raised, Exception):
                    verdict = None
                    break
                if got_ != ss_ + ws_ * hd_:
                    verdict = False
                    break
            if verdict:
                ctx.R.ok("SNAP-7", "running frame: stack_top_offset = stack_start_offset + wordsize * handler_depth")
            elif verdict is None:
                ctx.R.undecided("SNAP-7", f"stack_top_offset = {norm(use[0].value)[:60]} cannot be evaluated")
            else:
                ctx.R.fail("SNAP-7", mod, use[0], "for a running frame the trusted stack extent must be stack_start_offset + wordsize * handler_depth", construct=f"stack_top_offset = {norm(use[0].value)}")
        gsu = [(norm(gx), pol) for gx, pol in guards_of(mod, use[0], fn)] if use else []
        if use and not any(gx in ("stacktop_copy == -1", "iframe_raw.stacktop == -1") and pol for gx, pol in gsu):
            ctx.R.undecided("SNAP-7", "the handler-depth trimming is not guarded by `stacktop == -1` in a recognised way")
    else:
        ctx.R.undecided("SNAP-7", "handler_depth computation not found in the retry loop")
    # SNAP-6 nothing computed in one attempt is reused by the next: every local that is assigned inside
    # the retry loop must be (re)assigned in each iteration before it is read
    loop_assigned = set()
    for x in ast.walk(loop):
        if isinstance(x, ast.Name) and isinstance(x.ctx, ast.Store):
            loop_assigned.add(x.id)
    loop_assigned.discard("_")
    all_locals = {x.id for x in walk_scope(fn) if isinstance(x, ast.Name) and isinstance(x.ctx, ast.Store)}
    header = g.node_of(loop)
    body_first = g.node_of(loop.body[0])
    # definite assignment restricted to one iteration: start at the first body statement with everything
    # assigned outside the loop available, and the loop-assigned names unavailable
    IN = {n.idx: None for n in g.nodes}
    start = frozenset((all_locals | {a.arg for a in fn.args.args}) - loop_assigned)
    IN[body_first.idx] = start
    work = [body_first]
    from ..dataflow import _stores
    in_loop = {g.node_of(st).idx for st in ast.walk(loop) if isinstance(st, ast.stmt) and id(st) in g.by_ast} | \
              {n.idx for n in g.nodes if n.ast is not None and any(n.ast is h for h in ast.walk(loop))}
    def defs(n):
        if n.ast is None:
            return set()
        if n.kind == "stmt":
            return _stores(n.ast)
        if n.kind == "for":
            return _stores(n.ast.target)
        if n.kind == "handler":
            return {n.ast.name} if n.ast.name else set()
        return set()
    while work:
        n = work.pop()
        cur = IN[n.idx]
        out = frozenset(cur | defs(n))
        for succ in n.succ:
            if succ.idx == header.idx or succ.idx not in in_loop and succ.ast is not None and not any(succ.ast is x for x in ast.walk(loop)):
                continue
            if succ.ast is None and succ.kind in ("exit", "raise"):
                continue
            val = cur if (succ.idx in n.exc_succ and n.kind != "handler") else out
            if n.kind == "for" and succ.idx not in n.exc_succ:
                normal = [x for x in n.succ if x.idx not in n.exc_succ]
                if normal and succ is not normal[0]:
                    val = cur
            old = IN[succ.idx]
            new_ = val if old is None else (old & val)
            if new_ != old:
                IN[succ.idx] = new_
                work.append(succ)
    carried = []
    for n in g.nodes:
        cur = IN[n.idx]
        if cur is None or n.ast is None or not any(n.ast is x for x in ast.walk(loop)):
            continue
        exprs = []
        if n.kind in ("if", "while"):
            exprs = [n.ast.test]
        elif n.kind == "for":
            exprs = [n.ast.iter]
        elif n.kind == "stmt":
            exprs = [n.ast]
        for e in exprs:
            for x in ast.walk(e):
                if isinstance(x, ast.Name) and isinstance(x.ctx, ast.Load) and x.id in loop_assigned and x.id not in cur:
                    carried.append(x)
    if carried:
        for x in carried[:3]:
            ctx.R.fail("SNAP-6", mod, x, f"`{x.id}` is read in a retry attempt before that attempt has assigned it: its value comes from a previous attempt (an earlier instruction position), "
                       "so the snapshot mixes two positions instead of being consistent with one or rejected", construct=f"{x.id} carried across attempts in {norm(_stmt(mod, x))[:80]}")
    else:
        ctx.R.ok("SNAP-6", f"{len(loop_assigned)} locals assigned in the retry loop are all re-assigned in each attempt before being read (nothing is carried over)")
    # details.stack is reset in each attempt before it is appended to
    resets = [st for st in ast.walk(tr) if isinstance(st, ast.Assign) and norm(st.targets[0]) == "details.stack" and norm(st.value) == "[]"]
    apps = [st for st in ast.walk(tr) if isinstance(st, ast.Expr) and isinstance(st.value, ast.Call) and norm(st.value.func) == "details.stack.append"]
    def _fresh_in_attempt(v: ast.AST) -> bool:
        if isinstance(v, ast.List) and not v.elts:
            return True
        if isinstance(v, ast.Name):
            src = [a_ for a_ in ast.walk(tr) if isinstance(a_, (ast.Assign, ast.AnnAssign)) and norm(a_.targets[0] if isinstance(a_, ast.Assign) else a_.target) == v.id and a_.value is not None]
            return bool(src) and all(isinstance(a_.value, ast.List) and not a_.value.elts and in_body(tr.body, a_, mod) for a_ in src)
        return False
    stores = [st for st in ast.walk(tr) if isinstance(st, ast.Assign) and norm(st.targets[0]) == "details.stack"]
    if resets and apps and all(g.dominates(g.node_of(resets[0]), g.node_of(a)) for a in apps) and in_body(tr.body, resets[0], mod):
        ctx.R.ok("SNAP-6", "details.stack is reset at the start of each attempt's slot loop")
    elif not apps and stores and all(_fresh_in_attempt(st.value) and in_body(tr.body, st, mod) for st in stores):
        ctx.R.ok("SNAP-6", "details.stack is assigned a list built afresh inside each attempt")
    else:
        ctx.R.fail("SNAP-6", mod, tr, "details.stack must be reset inside each attempt before slots are appended: otherwise a retried attempt appends to the slots of the failed one", construct="details.stack = [] per attempt")
    # SNAP-8 after the snapshot is accepted the position is not read again: the handler-chain walk must start from the
    # validated token, otherwise stack and blocks describe two different instruction positions
    after_loop = fn.body[fn.body.index(loop) + 1:]
    rereads = [x for st_ in after_loop for x in ast.walk(st_) if isinstance(x, ast.Attribute) and x.attr == "f_lasti" and isinstance(x.ctx, ast.Load)]
    if rereads:
        ctx.R.fail("SNAP-8", mod, rereads[0], "frame.f_lasti is read again after the snapshot was accepted: the active-block computation then uses a position that was never validated against the value stack "
                   "(a frame running on another thread may have moved on: blocks of one position are paired with the stack of another)", construct=f"f_lasti re-read after acceptance: {norm(_stmt(mod, rereads[0]))[:80]}")
    else:
        acc = [st_ for st_ in after if isinstance(st_, ast.Assign) and norm(st_.value) == tok]
        if acc:
            ctx.R.ok("SNAP-8", f"the block computation starts from the validated token ({norm(acc[0])}); f_lasti is not read again")
        else:
            ctx.R.undecided("SNAP-8", "cannot see the accepted position being handed to the block computation")
    # JOIN-2 the handler-chain walk ends only by its own conditions; a bounded walk must not end silently
    walks = [l_ for st_ in after_loop for l_ in ast.walk(st_) if isinstance(l_, (ast.While, ast.For)) and any(isinstance(c_, ast.Call) and "FinallyBlock" in norm(c_.func) for c_ in ast.walk(l_))]
    for l_ in walks:
        if isinstance(l_, ast.For) and not (l_.orelse and isinstance(l_.orelse[-1], ast.Raise)):
            ctx.R.fail("JOIN-2", mod, l_, f"the handler-chain walk is bounded by `{norm(l_.iter)}` and ends silently when the bound is reached: each with/try costs two table hops (handler and its cleanup handler), "
                       "so deeply nested frames lose their outermost managers without any warning", construct=f"bounded handler walk {norm(l_.iter)}")
        else:
            ctx.R.ok("JOIN-2", "the handler-chain walk ends only when no entry covers the position")
    # acceptance breaks out of the loop
    if not any(isinstance(s, ast.Break) for s in after):
        ctx.R.fail("SNAP-5", mod, loop, "a consistent snapshot must end the retry loop", construct="break after acceptance")


def thr1(ctx: Ctx) -> None:
    """THR-1 unwrap_thread yields the thread's innermost frame only if the thread was alive in a sample taken before
    sys._current_frames() and in one taken after it and the frame exists; otherwise no frames.  Decided as a truth table over
    the two samples and the lookup result (each is_alive() call occurrence is its own atom), whatever the control-flow shape
    (helpers that the reference tree does not have are inlined first)."""
    import copy
    from ..stepper import Stepper, enumerate_table
    from ..emit import Unsupported
    mod = ctx.P.mod("_glue")
    q = "glue_threading.unwrap_thread"
    fn = mod.fn(q)
    ctx.R.saw(mod, q)
    tvar = fn.args.args[0].arg
    body = copy.deepcopy([s for s in fn.body if not (isinstance(s, ast.Expr) and isinstance(s.value, ast.Constant))])
    events: List[str] = []

    snaps: Set[str] = set()

    class Tag(ast.NodeTransformer):
        def visit_Assign(self, a: ast.Assign):
            # snapshot = sys._current_frames(): the sample is taken here; snapshot.get(ident) / snapshot[ident] later only reads it
            if norm(a.value) == "sys._current_frames()" and len(a.targets) == 1 and isinstance(a.targets[0], ast.Name):
                events.append("frames")
                snaps.add(a.targets[0].id)
                return ast.copy_location(ast.Assign(targets=a.targets, value=ast.Name(id="SNAPSHOT", ctx=ast.Load())), a)
            self.generic_visit(a)
            return a

        def visit_Call(self, c: ast.Call):
            self.generic_visit(c)
            t = norm(c)
            if isinstance(c.func, ast.Attribute) and c.func.attr == "get" and isinstance(c.func.value, ast.Name) and c.func.value.id in snaps:
                if f"{tvar}.ident" not in t:
                    events.append("noident")
                return ast.copy_location(ast.Name(id="FRAME", ctx=ast.Load()), c)
            if t == f"{tvar}.is_alive()":
                k = sum(1 for e in events if e.startswith("alive"))
                events.append(f"alive{k}")
                return ast.copy_location(ast.Name(id=f"ALIVE{k}", ctx=ast.Load()), c)
            if t.startswith("sys._current_frames()") and isinstance(c.func, ast.Attribute) and c.func.attr == "get":
                events.append("frames")
                if f"{tvar}.ident" not in t:
                    events.append("noident")
                return ast.copy_location(ast.Name(id="FRAME", ctx=ast.Load()), c)
            return c

        def visit_Subscript(self, n: ast.Subscript):
            self.generic_visit(n)
            if isinstance(n.value, ast.Name) and n.value.id in snaps and isinstance(n.ctx, ast.Load):
                if f"{tvar}.ident" not in norm(n):
                    events.append("noident")
                return ast.copy_location(ast.Name(id="FRAME", ctx=ast.Load()), n)
            if norm(n.value) == "sys._current_frames()":
                events.append("frames")
                if f"{tvar}.ident" not in norm(n):
                    events.append("noident")
                return ast.copy_location(ast.Name(id="FRAME", ctx=ast.Load()), n)
            return n

    body = [Tag().visit(s) for s in body]
    if "noident" in events:
        ctx.R.fail("THR-1", mod, fn, "the frame must be looked up by the thread's ident", construct="lookup by ident")
    ev = [e for e in events if e != "noident"]
    if ev.count("frames") != 1:
        ctx.R.undecided("THR-1", f"unwrap_thread reads sys._current_frames() {ev.count('frames')} times")
        return
    i = ev.index("frames")
    before, after = [e for e in ev[:i] if e.startswith("alive")], [e for e in ev[i + 1:] if e.startswith("alive")]
    if not before or not after:
        ctx.R.fail("THR-1", mod, fn, "unwrap_thread must take one liveness sample before sys._current_frames() and test one after "
                   f"(found {len(before)} before, {len(after)} after): a thread ident reused between the two is otherwise trusted", construct="was_alive / _current_frames / guard")
        return
    ctx.R.ok("THR-1", "is_alive() sampled before sys._current_frames(); second sample after it")
    alive_atoms = before + after
    known = [a.replace("alive", "ALIVE") for a in alive_atoms] + ["FRAME is None"]

    def run(assign):
        st = Stepper(assign)
        k, v = st.run(body, {})
        if k == "return":
            return norm(v) if v is not None else "None"
        return k

    try:
        atoms, rows = enumerate_table(run, known)
    except Unsupported as ex:
        ctx.R.undecided("THR-1", f"unwrap_thread is outside the step interpreter: {ex}")
        return
    bad = None
    for assign, out in rows:
        live = all(assign[a] for a in known[:-1]) and not assign["FRAME is None"]
        good = (out == "StackSlice(inner=FRAME)") if live else (out in ("[]", "()"))
        if not good and bad is None:
            bad = (assign, out)
    if bad is None:
        ctx.R.ok("THR-1", "StackSlice(inner=<frame>) iff the frame exists and the thread was alive before and after the lookup; otherwise no frames", f"truth table over {atoms}")
    else:
        assign, out = bad
        shown = {k: v for k, v in assign.items() if k in known}
        ctx.R.fail("THR-1", mod, fn, f"unwrap_thread must return no frames unless the frame is not None and the thread was alive before and after the lookup (ident reuse), and "
                   f"StackSlice(inner=<that frame>) otherwise; with {shown} it returns `{out}`", construct="liveness guard")


def thr2(ctx: Ctx) -> None:
    """THR-2 the worker thread that serves a to_thread.run_sync call is picked by the identity of its name object
    (`thread.name is thread_name`: the name string object is taken from the waiting frame's locals), never by equality,
    hashing or containment: default worker names of concurrent calls made from one place are equal strings"""
    mod = ctx.P.mod("_glue")
    q = "glue_trio.elaborate_to_thread_run_sync"
    if not mod.has(q):
        raise AnalysisError(f"anchor vanished: _glue.{q}")
    fn = mod.fn(q)
    ctx.R.saw(mod, q)
    names = {norm(s.targets[0]) for s in ast.walk(fn) if isinstance(s, ast.Assign) and "thread_name" in norm(s.value) and isinstance(s.targets[0], ast.Name)} | {"thread_name"}
    ident = [c for c in ast.walk(fn) if isinstance(c, ast.Compare) and len(c.ops) == 1 and any(isinstance(x, ast.Attribute) and x.attr == "name" for x in [c.left] + c.comparators)
             and any(norm(x) in names for x in [c.left] + c.comparators)]
    by_key = [c for c in ast.walk(fn) if (isinstance(c, ast.DictComp) and isinstance(c.key, ast.Attribute) and c.key.attr == "name")
              or (isinstance(c, ast.Call) and isinstance(c.func, ast.Attribute) and c.func.attr in ("get", "index", "count") and c.args and norm(c.args[0]) in names)
              or (isinstance(c, ast.Subscript) and norm(c.slice) in names)]
    if ident and all(isinstance(c.ops[0], ast.Is) for c in ident) and not by_key:
        ctx.R.ok("THR-2", f"{q}: the hosting thread is the one whose name *is* the waiting frame's thread_name object")
    elif any(isinstance(c.ops[0], (ast.Eq, ast.In)) for c in ident) or by_key:
        at = by_key[0] if by_key else ident[0]
        ctx.R.fail("THR-2", mod, at, f"{q}: the worker thread is selected by the value of its name (`{norm(at)[:60]}`), not by the identity of the name object: two concurrent to_thread.run_sync calls "
                   "with equal default names get each other's (or the same) thread spliced into their stacks", construct="worker thread matched by name value")
    else:
        ctx.R.undecided("THR-2", f"{q}: cannot see how the hosting thread is selected")


NEW_REF_CAPI = {
    # C-API functions that return a *new* (strong) reference, per the CPython documentation of 3.9-3.12
    "PyFrame_GetGenerator", "PyFrame_GetBack", "PyFrame_GetCode", "PyFrame_GetLocals", "PyFrame_GetGlobals", "PyFrame_GetBuiltins", "PyFrame_GetVar", "PyFrame_GetVarString",
    "PyThreadState_GetFrame", "PyObject_GetAttr", "PyObject_GetAttrString", "PyObject_Call", "PyObject_CallObject", "PyObject_Repr", "PyObject_Str", "PyObject_GetIter", "PyIter_Next",
    "PyDict_Copy", "PyDict_Keys", "PyDict_Values", "PyDict_Items", "PySequence_GetItem", "PySequence_List", "PySequence_Tuple", "PyImport_ImportModule", "PyCode_GetCode", "PyCode_GetVarnames",
    "PyCode_GetCellvars", "PyCode_GetFreevars", "PyObject_Dir", "PyObject_Type", "PyWeakref_GetRef", "Py_NewRef", "Py_XNewRef",
}


def cty1(ctx: Ctx) -> None:
    """CTY-1 a C-API function called through ctypes.pythonapi that returns a new reference is declared with
    restype = ctypes.py_object (ctypes then owns and releases that reference); declared as an integer / void pointer the
    reference is never released: the object (and everything it keeps alive -- frames, generators, managers of the extraction
    target) becomes immortal.  Today the package calls nothing through pythonapi."""
    n = 0
    example = ast.parse("f = ctypes.pythonapi.PyFrame_GetGenerator\nf.restype = ctypes.c_void_p\n")
    ctx.R.positive_example("CTY-1", bool(_cty_findings(example)))
    for mod in ctx.P.analysed_mods():
        for node, name, rt in _cty_findings(mod.tree):
            n += 1
            ctx.R.fail("CTY-1", mod, node, f"`{name}` returns a new reference, but it is called through ctypes with restype `{rt}`: nobody releases that reference, so every call leaks one reference to an object of the "
                       "observed program (it is never collected, its finalizers / __exit__ never run)", construct=f"ctypes.pythonapi.{name} restype {rt}")
    if n == 0:
        ctx.R.ok("CTY-1", "no new-reference C-API function is called through ctypes.pythonapi with a non-object restype")


def _cty_findings(tree: ast.AST):
    out = []
    alias: Dict[str, Tuple[str, ast.AST]] = {}
    for st in ast.walk(tree):
        if isinstance(st, ast.Assign) and len(st.targets) == 1 and isinstance(st.value, ast.Attribute) and norm(st.value.value).endswith("pythonapi") and st.value.attr in NEW_REF_CAPI:
            alias[norm(st.targets[0])] = (st.value.attr, st)
    restype: Dict[str, str] = {}
    for st in ast.walk(tree):
        if isinstance(st, ast.Assign) and len(st.targets) == 1 and isinstance(st.targets[0], ast.Attribute) and st.targets[0].attr == "restype":
            restype[norm(st.targets[0].value)] = norm(st.value)
    for nm, (api, st) in alias.items():
        rt = restype.get(nm, "c_int (the ctypes default)")
        if not rt.endswith("py_object"):
            out.append((st, api, rt))
    for c in ast.walk(tree):
        if isinstance(c, ast.Call) and isinstance(c.func, ast.Attribute) and norm(c.func.value).endswith("pythonapi") and c.func.attr in NEW_REF_CAPI:
            rt = restype.get(norm(c.func), "c_int (the ctypes default)")
            if not rt.endswith("py_object"):
                out.append((c, c.func.attr, rt))
    return out


def eqkey1(ctx: Ctx) -> None:
    """EQKEY-1 nothing is memoised under a code object by *equality*: code objects hash and compare by value (on 3.9 / 3.10
    without the line table or the file name), so `functools.lru_cache` / `cache` on a function of a code object, or a plain
    dict keyed by one, hands the result computed for one function to a different function with equal code (the same source
    compiled twice, a reloaded module, two layouts of one body).  Identity-keyed memos (IdentityDict, id(code) with the code
    kept alive) are fine."""
    import re as _re
    n = 0
    codeann = _re.compile(r"(^|[^\w])(types\.)?CodeType")
    for mod in ctx.P.analysed_mods():
        for q, fn in mod.defs.items():
            if not isinstance(fn, (ast.FunctionDef, ast.AsyncFunctionDef)):
                continue
            for d in fn.decorator_list:
                dn = norm(d.func) if isinstance(d, ast.Call) else norm(d)
                if dn.split(".")[-1] in ("lru_cache", "cache"):
                    n += 1
                    ps = [a for a in fn.args.posonlyargs + fn.args.args + fn.args.kwonlyargs if a.arg not in ("self", "cls")]
                    codes = [a.arg for a in ps if (a.annotation is not None and codeann.search(ast.unparse(a.annotation))) or (a.annotation is None and a.arg in ("code", "co", "codeobj", "code_obj"))]
                    if codes:
                        ctx.R.fail("EQKEY-1", mod, fn, f"`{q}` is memoised with @{dn} and takes the code object `{codes[0]}`: the cache is keyed by equality of code objects, so a different function whose code "
                                   "compares equal (same source compiled twice, a reloaded module; on 3.9/3.10 even a different line layout) is served the first one's result", construct=f"@{dn} keyed by a code object in {q}")
                    else:
                        ctx.R.ok("EQKEY-1", f"{mod.name}.{q}: @{dn} not keyed by a code object")
    if n == 0:
        ctx.R.ok("EQKEY-1", "no function of the package is memoised by equality")


def idkey1(ctx: Ctx) -> None:
    """IDKEY-1 a container that outlives one call (module level, attribute of self, default argument) and is keyed by id(x)
    keeps x itself alive in the entry (as IdentityDict does: `_data[id(k)] = (k, v)`): otherwise x can be freed, its address
    reused by another object, and that object is served the entry of the dead one (a line number, a registration, ...)"""
    n = 0
    example = ast.parse("_c = {}\ndef f(fr):\n    _c[(id(fr.f_code), fr.f_lasti)] = fr.f_lineno\n")
    ctx.R.positive_example("IDKEY-1", bool(_idkey_findings(example, None)))
    for mod in ctx.P.analysed_mods():
        for st, keyed, cont in _idkey_findings(mod.tree, mod):
            n += 1
            ctx.R.fail("IDKEY-1", mod, st, f"{mod.qualname_of(st)}: `{cont}` outlives the call and is keyed by `id({keyed})`, but the entry does not hold `{keyed}`: once that object is freed its id is reused, "
                       "and the next object at the same address is served the stale entry", construct=f"{cont} keyed by id({keyed}) without keeping it alive")
    good = 0
    for mod in ctx.P.analysed_mods():
        for st in ast.walk(mod.tree):
            if isinstance(st, ast.Assign) and isinstance(st.targets[0], ast.Subscript) and "id(" in norm(st.targets[0].slice) and norm(st.targets[0].value).startswith("self."):
                good += 1
    if n == 0:
        ctx.R.ok("IDKEY-1", f"every persistent id()-keyed store keeps its key object alive ({good} store(s) through self.<table>)")


def _idkey_findings(tree: ast.AST, mod: Optional[Mod]):
    out = []
    # persistent containers: module-level names bound to a dict / set / IdentityDict-free literal or constructor, self attributes
    persistent = set()
    for st in getattr(tree, "body", []):
        if isinstance(st, (ast.Assign, ast.AnnAssign)) and st.value is not None:
            tg = st.targets[0] if isinstance(st, ast.Assign) else st.target
            if isinstance(tg, ast.Name) and (isinstance(st.value, (ast.Dict, ast.Set)) or (isinstance(st.value, ast.Call) and norm(st.value.func).split(".")[-1] in ("dict", "set", "OrderedDict", "defaultdict"))):
                persistent.add(tg.id)
    for fn in ast.walk(tree):
        if not isinstance(fn, (ast.FunctionDef, ast.AsyncFunctionDef)):
            continue
        defaults = {a.arg for a, d in zip((fn.args.posonlyargs + fn.args.args)[::-1], fn.args.defaults[::-1]) if isinstance(d, (ast.Dict, ast.List, ast.Set))}
        defaults |= {a.arg for a, d in zip(fn.args.kwonlyargs, fn.args.kw_defaults) if isinstance(d, (ast.Dict, ast.List, ast.Set))}
        for st in ast.walk(fn):
            key = val = cont = None
            if isinstance(st, ast.Assign) and len(st.targets) >= 1 and isinstance(st.targets[-1], ast.Subscript):
                sub = st.targets[-1]
                key, val, cont = sub.slice, st.value, sub.value
            elif isinstance(st, ast.Call) and isinstance(st.func, ast.Attribute) and st.func.attr == "setdefault" and len(st.args) == 2:
                key, val, cont = st.args[0], st.args[1], st.func.value
            if key is None:
                continue
            ctext = norm(cont)
            is_persistent = (isinstance(cont, ast.Name) and (cont.id in persistent or cont.id in defaults)) or ctext.startswith("self.")
            if not is_persistent:
                continue
            # resolve a local key name
            if isinstance(key, ast.Name):
                src = [a_.value for a_ in ast.walk(fn) if isinstance(a_, ast.Assign) and len(a_.targets) == 1 and norm(a_.targets[0]) == key.id]
                if len(src) == 1:
                    key = src[0]
            ids = [c for c in ast.walk(key) if isinstance(c, ast.Call) and isinstance(c.func, ast.Name) and c.func.id == "id" and len(c.args) == 1]
            for c in ids:
                keyed = norm(c.args[0])
                # the entry keeps the object alive if the stored value mentions it (the pair (k, v)) ...
                vtext = norm(val)
                holds = any(norm(x) == keyed for x in ast.walk(val))
                # ... or the keyed object is a chain whose root the value holds (id(frame.f_code) with frame stored)
                if not holds:
                    out.append((st if isinstance(st, ast.stmt) else st, keyed, ctext))
    return out


GLOBAL_MUTATORS = {
    # call -> what undoes it
    "gc.disable": "gc.enable", "gc.enable": "gc.disable", "gc.freeze": "gc.unfreeze", "gc.set_threshold": "gc.set_threshold", "gc.set_debug": "gc.set_debug",
    "sys.setswitchinterval": "sys.setswitchinterval", "sys.settrace": "sys.settrace", "sys.setprofile": "sys.setprofile",
    "sys.setrecursionlimit": "sys.setrecursionlimit", "threading.settrace": "threading.settrace", "threading.setprofile": "threading.setprofile",
    "warnings.simplefilter": "warnings.catch_warnings", "warnings.filterwarnings": "warnings.catch_warnings", "signal.signal": "signal.signal",
    "faulthandler.enable": "faulthandler.disable", "os.chdir": "os.chdir",
}


def glob1(ctx: Ctx) -> None:
    """GLOB-1 extraction leaves interpreter-wide state as it found it: a call that changes process-global state
    (gc.disable, sys.setswitchinterval, sys.settrace, warnings filters, ...) anywhere in the package has its undo in a
    `finally:` that covers everything executed after it (for a generator-based context manager: the try around the yield);
    today the package contains no such call"""
    n = 0
    # embedded positive example: the rule must recognise an unprotected pause
    example = ast.parse("def f():\n    gc.disable()\n    yield\n    gc.enable()\n")
    ctx.R.positive_example("GLOB-1", bool(_glob_findings(example.body[0], lambda c: norm(c.func))))
    for mod in ctx.P.analysed_mods():
        for q, fn in mod.defs.items():
            if not isinstance(fn, (ast.FunctionDef, ast.AsyncFunctionDef)):
                continue
            def name_of(c: ast.Call, _m=mod) -> str:
                cal = ctx.P.resolve_call(_m, c)
                return cal.name if cal.kind in ("stdlib", "module") and cal.name else norm(c.func)
            for c, undo in _glob_findings(fn, name_of, mod):
                n += 1
                ctx.R.fail("GLOB-1", mod, c, f"{q}: `{norm(c)[:40]}` changes interpreter-wide state and its undo (`{undo}`) is not in a `finally:` covering what runs afterwards: "
                           "if that code raises (a failing frame analysis does), the process is left changed after extract() returns", construct=f"{q}: {norm(c.func)} without finally")
    if n == 0:
        ctx.R.ok("GLOB-1", "no call in the package changes interpreter-wide state without a covering finally (none changes it at all)")


def _glob_findings(fn: ast.AST, name_of, mod: Optional[Mod] = None):
    out = []
    for c in ast.walk(fn):
        if not isinstance(c, ast.Call):
            continue
        nm = name_of(c)
        nm = nm[len("builtins."):] if nm.startswith("builtins.") else nm
        if nm not in GLOBAL_MUTATORS:
            continue
        undo = GLOBAL_MUTATORS[nm]
        if undo == "warnings.catch_warnings":
            # fine inside `with warnings.catch_warnings():`
            if mod is not None and any(isinstance(a, ast.With) and any("catch_warnings" in norm(i.context_expr) for i in a.items) for a in mod.ancestors(c)):
                continue
            out.append((c, undo))
            continue
        # is there a try ... finally whose finalbody calls the undo and which starts at or after this call?
        covered = False
        for t in ast.walk(fn):
            if isinstance(t, ast.Try) and t.finalbody and any(isinstance(x, ast.Call) and norm(x.func) == undo for s_ in t.finalbody for x in ast.walk(s_)):
                if t.lineno >= c.lineno or any(x is c for s_ in t.body for x in ast.walk(s_)):
                    covered = True
        # the undo call itself (e.g. gc.enable() restoring) is not a finding when it is the covered partner
        is_partner = any(isinstance(t, ast.Try) and any(x is c for s_ in t.finalbody for x in ast.walk(s_)) for t in ast.walk(fn))
        if not covered and not is_partner:
            # an undo that merely restores (gc.enable after gc.disable in the same function) is reported once, at the mutator
            partner_of_other = any(isinstance(o, ast.Call) and o is not c and GLOBAL_MUTATORS.get(norm(o.func)) == nm and o.lineno < c.lineno for o in ast.walk(fn))
            if partner_of_other and nm in ("gc.enable",):
                continue
            out.append((c, undo))
    return out


C06 = [esc1, esc2, esc3, esc4, null1, glob1, cty1]
C07 = [snap, snap8, run1_310, thr1, thr2, null1]
