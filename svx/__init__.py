"""svx: repository-specific static checker for oremanj/stackscope.

Never imports or executes stackscope.  See /verif/DESIGN.md.
"""
