"""Engine TAINT: provenance of values inside one function (flow-insensitive fixpoint).

A value is *target-derived* if it comes from a parameter (other than the
allow-listed configuration parameters), from an introspection source
(sys._getframe, sys._current_frames, gc.get_referents, threading.enumerate,
greenlet getcurrent), or from any expression mentioning a target-derived name
outside a sanitiser.  Sanitisers produce values that are not in the property's
retained-object list: id, len, repr/str/f-strings, bool, type, isinstance,
hasattr, comparisons, `.f_code` / `.__code__` / `gi_code` / `ag_code` / get_code(...) (code objects).
A value is *fresh* if it is the result of calling a function defined in the same
function body (the package's own probe objects).
"""
from __future__ import annotations

import ast
from typing import Dict, Optional, Set

from .model import norm, walk_scope

SANITISER_CALLS = {"id", "len", "repr", "str", "bool", "type", "isinstance", "hasattr", "callable", "int", "format", "get_code", "sorted_names"}
CODE_ATTRS = {"f_code", "__code__", "gi_code", "ag_code", "cr_code", "co_name", "co_filename", "co_code", "co_consts", "__name__", "__qualname__", "__module__", "f_lineno", "f_lasti",
              # scalar fields of the package's own result records (bool / int / str): not objects of the observed program
              "is_async", "is_exiting", "varname", "start_line", "hide", "hide_line", "lineno", "funcname", "filename", "modname", "cleanup_offset", "handler", "level"}
# result objects are made to hold references to the target (obj, pyframe, inner stacks): an instance of
# one of them in persistent state retains whatever an extraction later writes into it
RESULT_TYPES = {"Context", "Frame", "Stack", "FrameDetails", "FrameDetails.FinallyBlock"}
SOURCE_CALLS = {"sys._getframe", "sys._current_frames", "gc.get_referents", "threading.enumerate", "greenlet_getcurrent", "get_true_caller", "inspect.getargvalues"}


class _ScalarAnn:
    """annotations of values that cannot hold a reference into the observed program: scalars, code objects, and (nested)
    tuples / frozensets / Optionals of those"""
    BASE = {"bool", "int", "float", "str", "bytes", "None", "types.CodeType", "CodeType"}

    def match(self, ann: str) -> bool:
        try:
            e = ast.parse(ann.strip(), mode="eval").body
        except SyntaxError:
            return False
        return self._ok(e)

    def _ok(self, e: ast.AST) -> bool:
        if isinstance(e, ast.Constant):
            return e.value is None or e.value is Ellipsis or (isinstance(e.value, str) and self.match(e.value))
        if isinstance(e, (ast.Name, ast.Attribute)):
            return ast.unparse(e) in self.BASE
        if isinstance(e, ast.BinOp) and isinstance(e.op, ast.BitOr):
            return self._ok(e.left) and self._ok(e.right)
        if isinstance(e, ast.Subscript) and ast.unparse(e.value) in ("Optional", "Tuple", "tuple", "FrozenSet", "frozenset", "typing.Optional", "typing.Tuple", "Union",
                                                                      # mappings / sequences whose keys and values are all of the kinds above hold nothing else either
                                                                      "Dict", "dict", "Mapping", "MutableMapping", "typing.Dict", "typing.Mapping", "typing.MutableMapping", "IdentityDict",
                                                                      "List", "list", "Sequence", "Set", "set"):
            sl = e.slice
            elts = list(sl.elts) if isinstance(sl, ast.Tuple) else [sl]
            return bool(elts) and all(self._ok(x) for x in elts)
        return False


def expr_tainted(e: Optional[ast.AST], tainted: Set[str]) -> bool:
    if e is None:
        return False
    if isinstance(e, ast.Constant):
        return False
    if isinstance(e, ast.Name):
        return e.id in tainted
    if isinstance(e, ast.JoinedStr):
        return False
    if isinstance(e, ast.Compare):
        return False
    if isinstance(e, ast.UnaryOp) and isinstance(e.op, ast.Not):
        return False
    if isinstance(e, ast.Attribute):
        if e.attr in CODE_ATTRS:
            return False
        return expr_tainted(e.value, tainted)
    if isinstance(e, ast.Call):
        f = norm(e.func)
        if f in RESULT_TYPES:
            return True
        if f in SANITISER_CALLS or f.split(".")[-1] in ("get_code",):
            return False
        if f in SOURCE_CALLS:
            return True
        if expr_tainted(e.func, tainted):
            return True
        return any(expr_tainted(a, tainted) for a in e.args) or any(expr_tainted(k.value, tainted) for k in e.keywords)
    if isinstance(e, (ast.Lambda, ast.FunctionDef, ast.AsyncFunctionDef)):
        return False
    if isinstance(e, (ast.ListComp, ast.SetComp, ast.GeneratorExp, ast.DictComp)):
        inner = set(tainted)
        for g in e.generators:
            if expr_tainted(g.iter, inner):
                for n in ast.walk(g.target):
                    if isinstance(n, ast.Name):
                        inner.add(n.id)
        if isinstance(e, ast.DictComp):
            return expr_tainted(e.key, inner) or expr_tainted(e.value, inner)
        return expr_tainted(e.elt, inner)
    return any(expr_tainted(c, tainted) for c in ast.iter_child_nodes(e))


def tainted_names(fn: ast.AST, clean_params: Set[str] = frozenset(), inherited: Set[str] = frozenset()) -> Set[str]:
    t: Set[str] = set(inherited)
    a = fn.args
    import re as _re
    # numbers, flags, strings and code objects are not the observed program's *state*: holding one keeps no frame, generator or
    # manager alive (a code object is the function's immutable code)
    scalar = _ScalarAnn()
    for x in a.posonlyargs + a.args + a.kwonlyargs:
        if x.arg not in clean_params and x.arg not in ("self", "cls"):
            ann = ast.unparse(x.annotation).strip("'\"") if x.annotation is not None else ""
            if scalar.match(ann):
                continue  # a number / flag / string cannot refer to the extraction target
            t.add(x.arg)
    if a.vararg:
        t.add(a.vararg.arg)
    if a.kwarg:
        t.add(a.kwarg.arg)
    changed = True
    while changed:
        changed = False
        for n in walk_scope(fn):
            targets = []
            val = None
            if isinstance(n, ast.Assign):
                targets, val = n.targets, n.value
            elif isinstance(n, ast.AnnAssign) and n.value is not None:
                targets, val = [n.target], n.value
            elif isinstance(n, ast.AugAssign):
                targets, val = [n.target], n.value
            elif isinstance(n, (ast.For, ast.AsyncFor)):
                targets, val = [n.target], n.iter
            elif isinstance(n, ast.NamedExpr):
                targets, val = [n.target], n.value
            elif isinstance(n, (ast.With, ast.AsyncWith)):
                for it in n.items:
                    if it.optional_vars is not None and expr_tainted(it.context_expr, t):
                        for x in ast.walk(it.optional_vars):
                            if isinstance(x, ast.Name) and x.id not in t:
                                t.add(x.id)
                                changed = True
                continue
            if val is not None and expr_tainted(val, t):
                for tg in targets:
                    for x in ast.walk(tg):
                        if isinstance(x, ast.Name) and isinstance(x.ctx, ast.Store) and x.id not in t:
                            t.add(x.id)
                            changed = True
                    # x[k] = tainted / x.attr = tainted  taints the container x
                    if isinstance(tg, (ast.Subscript, ast.Attribute)):
                        root = tg
                        while isinstance(root, (ast.Subscript, ast.Attribute)):
                            root = root.value
                        if isinstance(root, ast.Name) and root.id not in t and root.id not in ("self",):
                            t.add(root.id)
                            changed = True
        for n in walk_scope(fn):
            # x.append(tainted) / x.add(tainted) / x.update(tainted) taints x
            if isinstance(n, ast.Call) and isinstance(n.func, ast.Attribute) and n.func.attr in ("append", "appendleft", "add", "update", "extend", "insert", "setdefault") \
                    and isinstance(n.func.value, ast.Name) and n.func.value.id not in t:
                if any(expr_tainted(a, t) for a in n.args):
                    t.add(n.func.value.id)
                    changed = True
    return t


def fresh_names(fn: ast.AST) -> Dict[str, ast.AST]:
    """names bound to the result of calling a function defined in this same body"""
    local_defs = {n.name for n in walk_scope(fn) if isinstance(n, (ast.FunctionDef, ast.AsyncFunctionDef))}
    out: Dict[str, ast.AST] = {}
    for n in walk_scope(fn):
        if isinstance(n, ast.Assign) and len(n.targets) == 1 and isinstance(n.targets[0], ast.Name) and isinstance(n.value, ast.Call):
            f = n.value.func
            if isinstance(f, ast.Name) and f.id in local_defs:
                out[n.targets[0].id] = n
            elif isinstance(f, ast.Name) and f.id == "iter":
                out[n.targets[0].id] = n
            elif isinstance(f, ast.Name) and f.id in ("extract_iter",):
                out[n.targets[0].id] = n  # the engine's own generator: created here, never a stack item
    # objects obtained from a fresh object (method call on it, possibly through typing.cast)
    changed = True
    while changed:
        changed = False
        for n in walk_scope(fn):
            if isinstance(n, ast.Assign) and len(n.targets) == 1 and isinstance(n.targets[0], ast.Name) and n.targets[0].id not in out:
                v = n.value
                if isinstance(v, ast.Call) and isinstance(v.func, ast.Name) and v.func.id == "cast" and len(v.args) == 2:
                    v = v.args[1]
                root = v
                while isinstance(root, (ast.Call, ast.Attribute)):
                    root = root.func if isinstance(root, ast.Call) else root.value
                if isinstance(v, ast.Call) and isinstance(root, ast.Name) and root.id in out:
                    out[n.targets[0].id] = n
                    changed = True
    return out
