"""Small CFG dataflows: known-non-empty containers (CONT-3), definite assignment (DEF-1)."""
from __future__ import annotations

import ast
from typing import Dict, FrozenSet, List, Optional, Set, Tuple

from .cfg import CFG, Node
from .model import norm
from .util import nonempty_facts

ACCESS_METHODS = {"pop", "popleft"}
ADDERS = {"append", "appendleft"}
REMOVERS = {"pop", "popleft", "clear", "remove"}


def _accesses(e: ast.AST, containers: Set[str]) -> List[Tuple[ast.AST, str]]:
    out = []
    if isinstance(e, ast.Call) and isinstance(e.func, ast.Attribute) and e.func.attr in ACCESS_METHODS \
            and isinstance(e.func.value, ast.Name) and e.func.value.id in containers and not e.args:
        out.append((e, e.func.value.id))
    if isinstance(e, ast.Subscript) and isinstance(e.value, ast.Name) and e.value.id in containers \
            and isinstance(e.ctx, ast.Load):
        s = e.slice
        if isinstance(s, ast.Constant) and isinstance(s.value, int):
            out.append((e, e.value.id))
        elif isinstance(s, ast.UnaryOp) and isinstance(s.op, ast.USub) and isinstance(s.operand, ast.Constant):
            out.append((e, e.value.id))
    return out


def check_expr(e: Optional[ast.AST], known: FrozenSet[str], containers: Set[str], results: List[Tuple[ast.AST, str, bool]]) -> None:
    """walk e in evaluation order with short-circuit knowledge"""
    if e is None:
        return
    if isinstance(e, ast.BoolOp):
        cur = set(known)
        for x in e.values:
            check_expr(x, frozenset(cur), containers, results)
            cur |= nonempty_facts(x, isinstance(e.op, ast.And))
        return
    if isinstance(e, ast.IfExp):
        check_expr(e.test, known, containers, results)
        check_expr(e.body, known | nonempty_facts(e.test, True), containers, results)
        check_expr(e.orelse, known | nonempty_facts(e.test, False), containers, results)
        return
    if isinstance(e, (ast.FunctionDef, ast.AsyncFunctionDef, ast.Lambda, ast.ClassDef)):
        return
    for a, c in _accesses(e, containers):
        results.append((a, c, c in known))
    for ch in ast.iter_child_nodes(e):
        check_expr(ch, known, containers, results)


def _mutations(st: ast.AST, containers: Set[str]) -> Tuple[Set[str], Set[str]]:
    """(containers surely non-empty afterwards, containers whose emptiness becomes unknown)"""
    add: Set[str] = set()
    rem: Set[str] = set()
    for n in ast.walk(st):
        if isinstance(n, ast.Call) and isinstance(n.func, ast.Attribute) and isinstance(n.func.value, ast.Name) \
                and n.func.value.id in containers:
            if n.func.attr in ADDERS:
                add.add(n.func.value.id)
            elif n.func.attr in REMOVERS or n.func.attr in ("extend", "extendleft", "rotate", "insert", "reverse", "sort"):
                if n.func.attr in REMOVERS:
                    rem.add(n.func.value.id)
        if isinstance(n, ast.Name) and isinstance(n.ctx, (ast.Store, ast.Del)) and n.id in containers:
            rem.add(n.id)
        if isinstance(n, ast.Delete):
            for t in n.targets:
                if isinstance(t, ast.Subscript) and isinstance(t.value, ast.Name) and t.value.id in containers:
                    rem.add(t.value.id)
    # X = (a,) / [a]  => non-empty
    if isinstance(st, ast.Assign) and len(st.targets) == 1 and isinstance(st.targets[0], ast.Name) \
            and isinstance(st.value, (ast.Tuple, ast.List)) and st.value.elts \
            and not any(isinstance(x, ast.Starred) for x in st.value.elts):
        rem.discard(st.targets[0].id)
        add.add(st.targets[0].id)
    # removal after add in the same statement: be conservative
    return add - rem, rem


def nonempty_analysis(g: CFG, containers: Set[str]) -> List[Tuple[ast.AST, str, bool]]:
    """for every pop()/popleft()/[const] access on a container: is it known non-empty there on all paths?"""
    TOP = None
    IN: Dict[int, Optional[FrozenSet[str]]] = {n.idx: TOP for n in g.nodes}
    IN[g.entry.idx] = frozenset()
    work = [g.entry]
    # `n = len(c)` bound once, c never shrunk in this function: a test of n is a test of len(c)
    from . import util as _util
    _util.LEN_ALIASES.clear()
    fn_ = g.fn
    shrunk = {c_.func.value.id for c_ in ast.walk(fn_) if isinstance(c_, ast.Call) and isinstance(c_.func, ast.Attribute) and isinstance(c_.func.value, ast.Name)
              and c_.func.attr in ("pop", "popleft", "clear", "remove", "popitem")} \
        | {t_.value.id for d_ in ast.walk(fn_) if isinstance(d_, (ast.Delete, ast.Assign)) for t_ in (d_.targets if isinstance(d_, (ast.Delete, ast.Assign)) else []) if isinstance(t_, ast.Subscript) and isinstance(t_.value, ast.Name)}
    for a_ in ast.walk(fn_):
        if isinstance(a_, ast.Assign) and len(a_.targets) == 1 and isinstance(a_.targets[0], ast.Name) and isinstance(a_.value, ast.Call) and isinstance(a_.value.func, ast.Name) and a_.value.func.id == "len" \
                and len(a_.value.args) == 1 and isinstance(a_.value.args[0], ast.Name) and a_.value.args[0].id in containers and a_.value.args[0].id not in shrunk:
            nm_ = a_.targets[0].id
            if sum(1 for w_ in ast.walk(fn_) if isinstance(w_, ast.Name) and w_.id == nm_ and isinstance(w_.ctx, ast.Store)) == 1 \
                    and sum(1 for w_ in ast.walk(fn_) if isinstance(w_, ast.Name) and w_.id == a_.value.args[0].id and isinstance(w_.ctx, ast.Store)) <= 1:
                _util.LEN_ALIASES[nm_] = a_.value.args[0].id

    def header_expr(n: Node) -> List[ast.AST]:
        a = n.ast
        if n.kind in ("if", "while"):
            return [a.test]
        if n.kind == "for":
            return [a.iter]
        if n.kind == "with":
            return [i.context_expr for i in a.items]
        if n.kind == "stmt":
            return [a]
        return []

    def flow(n: Node, s: FrozenSet[str]) -> Tuple[FrozenSet[str], FrozenSet[str], FrozenSet[str]]:
        """(normal/true out, false out, exceptional out)"""
        if n.ast is None:
            return s, s, s
        if n.kind in ("if", "while"):
            t = s | nonempty_facts(n.ast.test, True)
            f = s | nonempty_facts(n.ast.test, False)
            # mutations inside the test (rare)
            add, rem = _mutations(n.ast.test, containers)
            return frozenset((t | add) - rem), frozenset((f | add) - rem), frozenset(s - rem)
        if n.kind == "stmt":
            add, rem = _mutations(n.ast, containers)
            out = frozenset((s | add) - rem)
            return out, out, frozenset(s - rem)
        if n.kind == "for":
            add, rem = _mutations(n.ast.target, containers)
            out = frozenset(s - rem)
            return out, out, out
        return s, s, s

    while work:
        n = work.pop()
        s = IN[n.idx]
        if s is None:
            continue
        t, f, x = flow(n, s)
        tr, fa = g.branch_succs(n) if n.kind in ("if", "while") else ([], [])
        for succ in n.succ:
            if succ.idx in n.exc_succ:
                val = x
            elif succ in fa:
                val = f
            else:
                val = t
            old = IN[succ.idx]
            new = val if old is None else (old & val)
            if new != old:
                IN[succ.idx] = new
                work.append(succ)
    results: List[Tuple[ast.AST, str, bool]] = []
    for n in g.nodes:
        s = IN[n.idx]
        if s is None or n.ast is None:
            continue
        for e in header_expr(n):
            check_expr(e, s, containers, results)
    _util.LEN_ALIASES.clear()
    return results


# --------------------------------------------------------------------- definite assignment
def _stores(node: ast.AST) -> Set[str]:
    out = set()
    for n in ast.walk(node):
        if isinstance(n, ast.Name) and isinstance(n.ctx, ast.Store):
            out.add(n.id)
        elif isinstance(n, (ast.FunctionDef, ast.AsyncFunctionDef, ast.ClassDef)) and n is not node:
            out.add(n.name)
        elif isinstance(n, (ast.Import, ast.ImportFrom)):
            for a in n.names:
                out.add(a.asname or a.name.split(".")[0])
    return out


def definite_assignment(g: CFG, fn: ast.AST, locals_: Set[str]) -> List[Tuple[ast.AST, str]]:
    """loads of a local that is not assigned on every path from entry (incl. exceptional edges,
    which leave a statement *before* its own assignment took effect)"""
    params = set()
    a = fn.args
    for x in a.args + a.kwonlyargs + a.posonlyargs:
        params.add(x.arg)
    if a.vararg:
        params.add(a.vararg.arg)
    if a.kwarg:
        params.add(a.kwarg.arg)
    IN: Dict[int, Optional[FrozenSet[str]]] = {n.idx: None for n in g.nodes}
    IN[g.entry.idx] = frozenset(params)
    work = [g.entry]

    def defs(n: Node) -> Set[str]:
        if n.ast is None:
            return set()
        if n.kind == "stmt":
            return _stores(n.ast)
        if n.kind == "def":
            return {n.ast.name}
        if n.kind == "for":
            return _stores(n.ast.target)
        if n.kind == "with":
            out = set()
            for i in n.ast.items:
                if i.optional_vars is not None:
                    out |= _stores(i.optional_vars)
            return out
        if n.kind == "handler":
            return {n.ast.name} if n.ast.name else set()
        if n.kind in ("if", "while"):
            return _stores(n.ast.test)  # walrus
        return set()

    while work:
        n = work.pop()
        s = IN[n.idx]
        if s is None:
            continue
        out = frozenset(s | defs(n))
        for succ in n.succ:
            if succ.idx in n.exc_succ and n.kind != "handler":
                val = s
            else:
                val = out
            if n.kind == "for" and succ.idx not in n.exc_succ:
                # the loop-exit edge of a `for` leaves without binding the target; body edge binds it
                tr = [x for x in n.succ if x.idx not in n.exc_succ]
                if tr and succ is not tr[0]:
                    val = s
            old = IN[succ.idx]
            new = val if old is None else (old & val)
            if new != old:
                IN[succ.idx] = new
                work.append(succ)
    bad: List[Tuple[ast.AST, str]] = []
    for n in g.nodes:
        s = IN[n.idx]
        if s is None or n.ast is None:
            continue
        exprs: List[ast.AST] = []
        if n.kind in ("if", "while"):
            exprs = [n.ast.test]
        elif n.kind == "for":
            exprs = [n.ast.iter]
        elif n.kind == "with":
            exprs = [i.context_expr for i in n.ast.items]
        elif n.kind == "stmt":
            exprs = [n.ast]
        elif n.kind == "handler" and n.ast.type is not None:
            exprs = [n.ast.type]
        for e in exprs:
            todo = [e]
            while todo:
                x = todo.pop()
                if isinstance(x, (ast.FunctionDef, ast.AsyncFunctionDef, ast.Lambda, ast.ClassDef)) and x is not e:
                    continue
                if isinstance(x, (ast.ListComp, ast.SetComp, ast.DictComp, ast.GeneratorExp)):
                    # comprehension variables are their own scope
                    bound = set()
                    for gen in x.generators:
                        bound |= _stores(gen.target)
                    for y in ast.walk(x):
                        if isinstance(y, ast.Name) and isinstance(y.ctx, ast.Load) and y.id in locals_ and y.id not in bound and y.id not in s:
                            bad.append((y, y.id))
                    continue
                if isinstance(x, ast.Name) and isinstance(x.ctx, ast.Load) and x.id in locals_ and x.id not in s:
                    # an AugAssign/Assign in the same statement does not help a load
                    bad.append((x, x.id))
                todo.extend(ast.iter_child_nodes(x))
    return bad
