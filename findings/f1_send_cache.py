"""F1 (C02): frame running inside __aexit__ on 3.12 loses the exiting manager."""
import sys, stackscope
from stackscope.lowlevel import contexts_active_in_frame
res = {}
class ACM:
    async def __aenter__(self): return self
    async def __aexit__(self, *a):
        res['ctx'] = contexts_active_in_frame(sys._getframe(1), None, sys._getframe(0))
async def main():
    async with ACM() as x:
        pass
c = main()
try: c.send(None)
except StopIteration: pass
ctx = res['ctx']
print(ctx)
assert len(ctx) == 1 and ctx[0].is_exiting and isinstance(ctx[0].obj, ACM) and ctx[0].is_async, ctx
print("OK")
