"""N1 (C08): `with cm as f(1).attr` (local callable) is dropped on 3.11/3.12 (PUSH_NULL)."""
import sys, stackscope
from stackscope.lowlevel import contexts_active_in_frame
class C:
    def __enter__(self): return 1
    def __exit__(self, *a): pass
class T: pass
def run():
    t = T()
    def fl(*a): return t
    with C() as fl(1).bar:
        return contexts_active_in_frame(sys._getframe(0))
ctx = run()
print(ctx[0].varname)
assert ctx[0].varname == "fl(1).bar", ctx[0].varname
print("OK")
