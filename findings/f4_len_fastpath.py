"""F4 (C17, open known finding): add_glue_as_needed short-circuits on len(sys.modules);
history  add a; extract; remove a, add b; extract  leaves b's glue uninstalled."""
import sys, types, stackscope
calls = []
def mk(name):
    m = types.ModuleType(name)
    m._stackscope_install_glue_ = lambda: calls.append(name)
    return m
stackscope.extract_since(None)
sys.modules["zz_a"] = mk("zz_a")
stackscope.extract_since(None)
assert calls == ["zz_a"]
del sys.modules["zz_a"]; sys.modules["zz_b"] = mk("zz_b")
stackscope.extract_since(None)
print(calls)
assert calls == ["zz_a", "zz_b"], calls
print("OK")
