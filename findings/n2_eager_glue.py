"""N2 (C17): a module already imported when stackscope is imported gets the built-in
glue eagerly AND its own _stackscope_install_glue_ at first extraction; and a raising
built-in glue makes `import stackscope` raise instead of warn."""
import sys, types, warnings
# (b) raising built-in glue: stand-in 'outcome' module lacking attributes
fake = types.ModuleType("outcome")
calls = []
fake._stackscope_install_glue_ = lambda: calls.append("module")
sys.modules["outcome"] = fake
with warnings.catch_warnings(record=True) as w:
    warnings.simplefilter("always")
    try:
        import stackscope
    except Exception as ex:
        print("import raised", type(ex).__name__, ex); sys.exit(1)
    stackscope.extract_since(None)
print(calls, [str(x.message)[:60] for x in w])
assert calls == ["module"], calls
# built-in glue for outcome must not have run (it would raise AttributeError -> no warning at all)
assert not any("outcome" in str(x.message) for x in w), [str(x.message) for x in w]
print("OK")
