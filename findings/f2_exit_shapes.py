"""Finding F2 (property C02 / C09): on CPython 3.11 / 3.12 the exiting context manager is not resolved for with-bodies that
end in a compound statement.  Run from a checkout of stackscope:  PYTHONPATH=<checkout> python f2_exit_shapes.py
Expected on the pinned tree under 3.12: `fall` and `tail_if_break2` print one exiting context with varname 'x'; `tail_try_except`
loses the varname after an "Inspection trickery failed" warning; `tail_while` and `tail_if_break1` print no context at all after a
"Surprise during analysis ... couldn't find an exception table entry" warning.  Exit status 1 if any shape is wrong."""
import sys
import warnings

from stackscope import lowlevel

res = {}


class CM:
    def __init__(self, tag):
        self.tag = tag

    def __enter__(self):
        return self

    def __exit__(self, *a):
        fr = sys._getframe(1)
        with warnings.catch_warnings(record=True) as w:
            warnings.simplefilter("always")
            ctxs = lowlevel.contexts_active_in_frame(fr)
        res[self.tag] = ([(c.varname, c.is_exiting) for c in ctxs], [str(x.message)[:80] for x in w])


def g(x):
    pass


def fall():
    with CM("fall") as x:
        g(x)


def tail_try_except():
    with CM("tail_try_except") as x:
        try:
            g(x)
        except KeyError:
            pass


def tail_while(n=2):
    with CM("tail_while") as x:
        while n:
            n -= 1


def tail_if_break():
    for i in (1, 2):
        with CM("tail_if_break%d" % i) as x:
            if i == 1:
                g(x)
            elif i == 2:
                break


for f in (fall, tail_try_except, tail_while, tail_if_break):
    f()
bad = 0
for k, v in res.items():
    ok = v == ([("x", True)], [])
    bad += not ok
    print("ok " if ok else "BAD", k, v)
sys.exit(1 if bad else 0)
