"""F3 (C12): customize(hide_line=True) is a no-op in both forms."""
import sys, stackscope
def f(): return stackscope.extract_since(sys._getframe(0))
stackscope.customize(f, hide_line=True)
@stackscope.customize(hide_line=True)
def g(): return stackscope.extract_since(sys._getframe(0))
assert f().frames[0].hide_line is True, "direct form"
assert g().frames[0].hide_line is True, "decorator form"
print("OK")
