"""F6 (C05/C10): documented insert form on the innermost frame raises IndexError."""
import sys, stackscope
def gen():
    yield
g = gen(); next(g)
def h(): return stackscope.extract_since(sys._getframe(0))
stackscope.customize(h, elaborate=lambda frame, nxt: (g, nxt))
s = h()
print([f.funcname for f in s.frames], s.leaf, s.error)
assert [f.funcname for f in s.frames] == ['h', 'gen'] and s.error is None
print("OK")
