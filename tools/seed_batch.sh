#!/bin/sh
# usage: tools/seed_batch.sh C07 C17 ...   (verifies each seed of each worktree, runs all checks against it)
D="${SEEDDIR:-SEED}"; for w in "$@"; do for s in seed1 seed2; do
  [ -f /tmp/wt_$w/$D/$s/patch.diff ] || continue
  echo "=================== $w $s"
  PY=/venv/bin/python
  grep -l "pyenv/versions/3.9" /tmp/wt_$w/$D/$s/notes.md >/dev/null 2>&1 && grep -o "/root/.pyenv/versions/[0-9.]*/bin/python3" /tmp/wt_$w/$D/$s/notes.md | head -1 > /tmp/pyver.txt && PY=$(cat /tmp/pyver.txt)
  echo "(demo python: $PY)"
  /verif/tools/verify_seed.sh /tmp/wt_$w $s $PY 2>&1 | grep -v "^  " | head -12
  /verif/tools/run_seed.py /tmp/wt_$w/$D/$s/patch.diff 2>&1 | tail -8 | cut -c1-330
done; done
