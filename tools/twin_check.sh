#!/bin/sh
# usage: tools/twin_check.sh <twin-name> [Cxx ...]  -- run the checks on a scratch copy with the twin applied, print findings only
d=$(/verif/tools/scratch_apply.sh /verif/twins/$1/patch.diff tw_$1) || exit 1
shift
props=${@:-C01 C02 C04 C05 C06 C07 C08 C09 C10 C11 C12 C13 C16 C17 C18 C19 C20}
for p in $props; do
  /venv/bin/python -m svx check $p --no-evidence --repo $d 2>&1 | grep -v "^\[C\|conda\|KNOWN-FINDING" | cut -c1-420 | sed "s/^/$p: /"
done
rm -rf $d
