#!/venv/bin/python
"""Re-run every check on every kept seed (scratch copies, in parallel) and refresh detected_by / undecided_in in its meta.json.
usage: tools/refresh_meta.py [glob]     default: all of /verif/seeded/*"""
import glob, json, os, subprocess, sys, shutil
from concurrent.futures import ThreadPoolExecutor
VERIF = os.path.dirname(os.path.dirname(os.path.abspath(__file__)))
props = [c["property_id"] for c in json.load(open(os.path.join(VERIF, "MANIFEST.json")))["checks"]]


def one(d):
    sid = os.path.basename(d)
    scr = f"/dev/shm/rm_{sid}"
    shutil.rmtree(scr, ignore_errors=True)
    os.makedirs(scr)
    subprocess.run(f"git -C /repo archive HEAD | tar -x -C {scr}", shell=True, check=True)
    subprocess.run(["git", "init", "-q", "."], cwd=scr)
    r = subprocess.run(["git", "apply", os.path.join(d, "patch.diff")], cwd=scr, capture_output=True, text=True)
    if r.returncode:
        shutil.rmtree(scr, ignore_errors=True)
        return sid, None
    fired = {}
    for p in props:
        r = subprocess.run(["/venv/bin/python", "-m", "svx", "check", p, "--no-evidence", "--repo", scr], cwd=VERIF, capture_output=True, text=True)
        if r.returncode:
            rules = []
            for line in r.stdout.splitlines():
                if line.strip().startswith("stackscope/") and "[" in line:
                    rule = line.split("[", 1)[1].split("]", 1)[0]
                    if rule not in rules:
                        rules.append(rule)
            fired[p] = {"exit": r.returncode, "rules": rules}
    shutil.rmtree(scr, ignore_errors=True)
    return sid, fired


dirs = sorted(glob.glob(os.path.join(VERIF, "seeded", sys.argv[1] if len(sys.argv) > 1 else "*")))
with ThreadPoolExecutor(8) as ex:
    for (sid, fired), d in zip(ex.map(one, dirs), dirs):
        if fired is None:
            print(sid, "PATCH DOES NOT APPLY")
            continue
        mp = os.path.join(d, "meta.json")
        meta = json.load(open(mp))
        meta["detected_by"] = {p: v for p, v in fired.items() if v["exit"] == 1}
        meta["undecided_in"] = {p: v for p, v in fired.items() if v["exit"] == 2}
        json.dump(meta, open(mp, "w"), indent=1)
        own = meta["breaks_property"]
        flag = "" if own in meta["detected_by"] else ("   <-- not in its own property" if meta["detected_by"] else "   <-- NOT DETECTED")
        print(sid, {p: v["rules"] for p, v in meta["detected_by"].items()}, "undecided", sorted(meta["undecided_in"]), flag)
