#!/venv/bin/python
"""Copy a verified seed from an agent worktree into /verif/seeded/<id>/ and record what catches it.
usage: tools/keep_seed.py <Cxx> <seedN> <seed-id> "<needs>" """
import json, os, shutil, subprocess, sys
prop, seed, sid, needs = sys.argv[1:5]
src = f"/tmp/wt_{prop}/{os.environ.get('SEEDDIR','SEED')}/{seed}"
dst = f"/verif/seeded/{sid}"
os.makedirs(dst, exist_ok=True)
for f in ("patch.diff", "demo.py", "notes.md"):
    shutil.copy(os.path.join(src, f), os.path.join(dst, f))
r = subprocess.run(["/verif/tools/run_seed.py", os.path.join(dst, "patch.diff")], capture_output=True, text=True)
fired = {}
cur = None
for line in r.stdout.splitlines():
    if line.startswith("== "):
        cur = line.split()[1]
        fired[cur] = {"exit": int(line.split()[-1]), "rules": []}
    elif cur and "[" in line and "]" in line and line.strip().startswith("stackscope/"):
        rule = line.split("[", 1)[1].split("]", 1)[0]
        if rule not in fired[cur]["rules"]:
            fired[cur]["rules"].append(rule)
notes = open(os.path.join(src, "notes.md")).read()
py = "/venv/bin/python"
for v in ("3.9.18", "3.10.13", "3.11.7")[:: 1]:
    if f"/root/.pyenv/versions/{v}" in notes:
        py = f"/root/.pyenv/versions/{v}/bin/python3"
        break
meta = {
    "id": sid,
    "breaks_property": prop,
    "origin": "independent sub-agent given only the property text and a scratch worktree (nothing from /verif)",
    "needs_to_manifest": needs,
    "confirmed_by_me": {
        "how": f"tools/verify_seed.sh /tmp/wt_{prop} {seed} {py}: patch applies to clean HEAD; pinned suite with the seed: 52 passed, 1 skipped; demo exits non-zero with the seed and 0 without it",
        "demo_interpreter": py,
        "demo_cmd": f"cd <worktree> && PYTHONPATH=<worktree> {py} demo.py",
    },
    "checks_run": "tools/run_seed.py patch.diff  (git -C /repo apply; every check quick, no evidence written; git -C /repo checkout -- .)",
    "detected_by": {p: v for p, v in fired.items() if v["exit"] == 1},
    "undecided_in": {p: v for p, v in fired.items() if v["exit"] == 2},
}
json.dump(meta, open(os.path.join(dst, "meta.json"), "w"), indent=1)
print(sid, "detected_by", {p: v["rules"] for p, v in meta["detected_by"].items()}, "undecided", list(meta["undecided_in"]))
