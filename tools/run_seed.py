#!/venv/bin/python
"""Apply a seeded patch to /repo, run every claimed check (quick, no evidence written), undo the patch.
usage: tools/run_seed.py <patch.diff> [Cxx ...]      prints which checks raise a VIOLATION / ANALYSIS-ERROR"""
import json
import os
import subprocess
import sys

VERIF = os.path.dirname(os.path.dirname(os.path.abspath(__file__)))


def main() -> int:
    patch = os.path.abspath(sys.argv[1])
    props = sys.argv[2:]
    if not props:
        m = json.load(open(os.path.join(VERIF, "MANIFEST.json")))
        props = [c["property_id"] for c in m["checks"]]
    st = subprocess.run(["git", "-C", "/repo", "status", "--porcelain", "--untracked-files=no"], capture_output=True, text=True).stdout.strip()
    if st:
        print("refusing: /repo has local changes:\n" + st)
        return 2
    r = subprocess.run(["git", "-C", "/repo", "apply", patch], capture_output=True, text=True)
    if r.returncode != 0:
        print("patch does not apply:", r.stderr)
        return 2
    out = {}
    try:
        for p in props:
            r = subprocess.run(["/venv/bin/python", "-m", "svx", "check", p, "--tier", "quick", "--no-evidence"], cwd=VERIF, capture_output=True, text=True)
            lines = [l for l in r.stdout.splitlines() if l.startswith(("VIOLATION", "ANALYSIS-ERROR", "  stackscope"))]
            out[p] = (r.returncode, lines)
    finally:
        subprocess.run(["git", "-C", "/repo", "checkout", "--", "."], check=True)
    fired = {p: v for p, v in out.items() if v[0] != 0}
    for p, (rc, lines) in fired.items():
        print(f"== {p} exit {rc}")
        for l in lines[:8]:
            print("   " + l[:260])
    print("SUMMARY fired:", {p: rc for p, (rc, _) in fired.items()} or "NONE")
    return 0


if __name__ == "__main__":
    sys.exit(main())
