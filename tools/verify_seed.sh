#!/bin/sh
# usage: tools/verify_seed.sh <worktree> <seedN> [python]
# confirms: patch applies to clean HEAD; suite passes with it; demo fails with it; demo passes without it.
WT="$1"; S="$2"; PY="${3:-/venv/bin/python}"
cd "$WT" || exit 2
git checkout -q -- stackscope
git apply --check "${SEEDDIR:-SEED}/$S/patch.diff" || { echo "PATCH DOES NOT APPLY"; exit 2; }
git apply "${SEEDDIR:-SEED}/$S/patch.diff"
echo "--- suite with seed:"; /venv/bin/python -m pytest -q -p no:cacheprovider 2>&1 | tail -1
echo "--- demo with seed:"; PYTHONPATH="$WT" "$PY" "${SEEDDIR:-SEED}/$S/demo.py" >/tmp/demo_out.txt 2>&1; echo "exit $?"; tail -3 /tmp/demo_out.txt
git checkout -q -- stackscope
echo "--- demo without seed:"; PYTHONPATH="$WT" "$PY" "${SEEDDIR:-SEED}/$S/demo.py" >/tmp/demo_out.txt 2>&1; echo "exit $?"; tail -2 /tmp/demo_out.txt
git status --short | grep -v SEED
