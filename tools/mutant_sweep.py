#!/venv/bin/python
"""Mutation sweep (development tool, not a registered check): single-point AST mutants of the
current /repo tree; for each, (1) does the pinned suite still pass? (2) which svx checks fire?
Writes /verif/probes/sweep_<tag>.json.  Scratch under /dev/shm, removed afterwards."""
import ast
import concurrent.futures as cf
import json
import os
import shutil
import subprocess
import sys
import tempfile
import time

sys.path.insert(0, os.path.dirname(os.path.dirname(os.path.abspath(__file__))))
sys.path.insert(0, os.path.join(os.path.dirname(os.path.dirname(os.path.abspath(__file__))), "probes"))
import mutant_survey_probe as probe  # noqa: E402  (generator only)

REPO = "/dev/shm/svx_sweep_base"  # snapshot of /repo taken at start (so edits to /repo during the sweep do not matter)
FILES = ["_extract.py", "_glue.py", "_customization.py", "_code_dispatch.py", "_types.py", "_lowlevel.py",
         "_lowlevel_cpython_311.py", "_lowlevel_cpython_310.py"]
ROOT = "/dev/shm/svx_sweep"


def func_at(tree, lineno):
    best = "<module>"
    for n in ast.walk(tree):
        if isinstance(n, (ast.FunctionDef, ast.AsyncFunctionDef, ast.ClassDef)) and n.lineno <= lineno <= (n.end_lineno or n.lineno):
            best = n.name
    return best


def run_one(job):
    fname, desc, ln, src, n, func, run_tests = job
    from svx.__main__ import analyse
    from svx.props import PROPS
    from svx.report import load_known, match_known
    d = tempfile.mkdtemp(prefix="m", dir=ROOT)
    try:
        shutil.copytree(os.path.join(REPO, "stackscope"), os.path.join(d, "stackscope"), ignore=shutil.ignore_patterns("__pycache__"))
        shutil.copy(os.path.join(REPO, "setup.py"), d)
        for extra in ("pyproject.toml", "setup.cfg", "tox.ini"):
            if os.path.exists(os.path.join(REPO, extra)):
                shutil.copy(os.path.join(REPO, extra), d)
        with open(os.path.join(d, "stackscope", fname), "w") as f:
            f.write(src)
        rc = None
        if run_tests:
            try:
                r = subprocess.run(["/venv/bin/python", "-m", "pytest", "-q", "-x", "-p", "no:cacheprovider", "--timeout=60", "-W", "ignore"],
                                   cwd=d, capture_output=True, text=True, timeout=240)
                rc = r.returncode
            except subprocess.TimeoutExpired:
                rc = 124
        fired = {}
        errors = {}
        known = load_known()
        for p in sorted(PROPS):
            try:
                R, _ = analyse(p, "quick", d)
                # VER-0 is excluded: ast.unparse on 3.12 emits PEP 701 f-strings that do not parse on <= 3.11, which
                # is an artefact of how the sweep writes its mutants, not a property of the mutation
                rules = sorted({f.rule for f in R.findings if not match_known(p, f, known) and f.rule != "VER-0"})
                if rules:
                    fired[p] = rules
                if R.errors:
                    errors[p] = [e[:160] for e in R.errors]
            except Exception as ex:  # AnalysisError at load
                errors[p] = [str(ex)[:160]]
        return dict(file=fname, func=func, desc=desc, line=ln, suite_rc=rc, fired=fired, errors=errors, n=n)
    finally:
        shutil.rmtree(d, ignore_errors=True)


def main():
    tag = sys.argv[1] if len(sys.argv) > 1 else "run"
    run_tests = "--no-tests" not in sys.argv
    only = [a for a in sys.argv[2:] if a.endswith(".py")]
    shutil.rmtree(ROOT, ignore_errors=True)
    os.makedirs(ROOT)
    shutil.rmtree(REPO, ignore_errors=True)
    os.makedirs(REPO)
    subprocess.run("git -C /repo archive HEAD | tar -x -C " + REPO, shell=True, check=True)
    jobs = []
    for fname in FILES:
        if only and fname not in only:
            continue
        src = open(os.path.join(REPO, "stackscope", fname)).read()
        tree = ast.parse(src)
        seen = {ast.unparse(tree)}
        for desc, ln, t2 in probe.mutants(tree):
            ast.fix_missing_locations(t2)
            try:
                s2 = ast.unparse(t2)
                compile(s2, fname, "exec")
            except Exception:
                continue
            if s2 in seen:
                continue
            seen.add(s2)
            if s2.startswith("from __future__"):
                first, rest = s2.split("\n", 1)
                s2 = first + "\n" + probe.PRELUDE + rest
            else:
                s2 = probe.PRELUDE + s2
            jobs.append((fname, desc, ln, s2, len(jobs), func_at(tree, ln), run_tests))
    print("jobs", len(jobs), flush=True)
    t0 = time.time()
    res = []
    with cf.ProcessPoolExecutor(int(os.environ.get("SWEEP_JOBS", "12"))) as ex:
        for k, r in enumerate(ex.map(run_one, jobs, chunksize=2)):
            res.append(r)
            if k % 200 == 0:
                print(k, round(time.time() - t0), flush=True)
    shutil.rmtree(ROOT, ignore_errors=True)
    shutil.rmtree(REPO, ignore_errors=True)
    out = os.path.join(os.path.dirname(os.path.dirname(os.path.abspath(__file__))), "probes", f"sweep_{tag}.json")
    json.dump(dict(total=len(res), results=res), open(out, "w"), indent=0)
    surv = [r for r in res if r["suite_rc"] == 0]
    det = [r for r in surv if r["fired"]]
    print("total", len(res), "survive-suite", len(surv), "of those detected", len(det), "wall", round(time.time() - t0))


if __name__ == "__main__":
    main()
