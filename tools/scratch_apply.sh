#!/bin/sh
# usage: tools/scratch_apply.sh <patch.diff> <name>   -> scratch copy of /repo HEAD with the patch applied at /dev/shm/scr_<name> (remove it when done)
d=/dev/shm/scr_$2
rm -rf "$d"; mkdir -p "$d"
git -C /repo archive HEAD | tar -x -C "$d"
(cd "$d" && git init -q . 2>/dev/null && git apply "$1") || { echo "patch failed"; exit 1; }
echo "$d"
