#!/bin/sh
# usage: tools/import_twins.sh <worktree> <REFACn> <prefix>   -- copy rK/{patch.diff,notes.md} to twins/<prefix>-rK and run every check on each
wt=$1; rd=$2; pre=$3
for k in 1 2 3 4 5; do
  [ -f $wt/$rd/r$k/patch.diff ] || continue
  mkdir -p /verif/twins/$pre-r$k
  cp $wt/$rd/r$k/patch.diff $wt/$rd/r$k/notes.md /verif/twins/$pre-r$k/ 2>/dev/null
done
for k in 1 2 3 4 5; do
  [ -d /verif/twins/$pre-r$k ] || continue
  ( out=$(/verif/tools/twin_check.sh $pre-r$k C01 C02 C03 C04 C05 C06 C07 C08 C09 C10 C11 C12 C13 C14 C15 C16 C17 C18 C19 C20 2>&1); echo "=== $pre-r$k"; echo "$out" ) > /dev/shm/twin_$pre-r$k.out 2>&1 &
done
wait
cat /dev/shm/twin_$pre-r*.out; rm -f /dev/shm/twin_$pre-r*.out
