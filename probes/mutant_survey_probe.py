"""Throwaway design-phase probe: which single-point mutants of stackscope survive
its own test suite?  Output: /dev/shm/mut/survivors.json"""
import ast, copy, json, os, shutil, subprocess, sys, tempfile, concurrent.futures as cf

BASE = "/dev/shm/mut/base"
FILES = ["_extract.py", "_glue.py", "_customization.py", "_code_dispatch.py",
         "_types.py", "_lowlevel.py", "_lowlevel_cpython_311.py"]

CMP = {ast.Lt: ast.LtE, ast.LtE: ast.Lt, ast.Gt: ast.GtE, ast.GtE: ast.Gt,
       ast.Eq: ast.NotEq, ast.NotEq: ast.Eq, ast.Is: ast.IsNot, ast.IsNot: ast.Is,
       ast.In: ast.NotIn, ast.NotIn: ast.In}


def func_of(tree):
    """map node id -> enclosing function qualname"""
    m = {}
    def walk(node, q):
        for ch in ast.iter_child_nodes(node):
            if isinstance(ch, (ast.FunctionDef, ast.AsyncFunctionDef, ast.ClassDef)):
                q2 = q + [ch.name]
                m[id(ch)] = ".".join(q2)
                walk(ch, q2)
            else:
                m[id(ch)] = ".".join(q)
                walk(ch, q)
    walk(tree, [])
    return m


def mutants(tree):
    """yield (description, lineno, mutated_tree)"""
    nodes = list(ast.walk(tree))
    idx = {id(n): i for i, n in enumerate(nodes)}

    def clone_with(i, fn):
        t2 = copy.deepcopy(tree)
        n2 = list(ast.walk(t2))[i]
        fn(n2, t2)
        return t2

    parents = {}
    for n in nodes:
        for f, v in ast.iter_fields(n):
            if isinstance(v, list):
                for k, ch in enumerate(v):
                    if isinstance(ch, ast.AST):
                        parents[id(ch)] = (n, f, k)
            elif isinstance(v, ast.AST):
                parents[id(v)] = (n, f, None)

    for i, n in enumerate(nodes):
        ln = getattr(n, "lineno", 0)
        if isinstance(n, ast.Compare):
            for k, op in enumerate(n.ops):
                if type(op) in CMP:
                    def f(n2, t2, k=k, op=op):
                        n2.ops[k] = CMP[type(op)]()
                    yield (f"cmp {type(op).__name__}->{CMP[type(op)].__name__}", ln, clone_with(i, f))
        if isinstance(n, ast.BoolOp):
            def f(n2, t2):
                n2.op = ast.Or() if isinstance(n2.op, ast.And) else ast.And()
            yield ("boolop swap", ln, clone_with(i, f))
            for k in range(len(n.values)):
                if len(n.values) >= 2:
                    def f(n2, t2, k=k):
                        del n2.values[k]
                        if len(n2.values) == 1:
                            n2.values.append(n2.values[0])
                    yield (f"boolop drop operand {k}", ln, clone_with(i, f))
        if isinstance(n, (ast.If, ast.While, ast.IfExp)):
            def f(n2, t2):
                n2.test = ast.UnaryOp(op=ast.Not(), operand=n2.test)
            yield ("negate cond", ln, clone_with(i, f))
        if isinstance(n, ast.Constant) and isinstance(n.value, bool):
            def f(n2, t2):
                n2.value = not n2.value
            yield (f"bool {n.value}->{not n.value}", ln, clone_with(i, f))
        elif isinstance(n, ast.Constant) and isinstance(n.value, int):
            for d in (1, -1):
                def f(n2, t2, d=d):
                    n2.value = n2.value + d
                yield (f"int {n.value}->{n.value + d}", ln, clone_with(i, f))
        if isinstance(n, ast.BinOp) and isinstance(n.op, (ast.Add, ast.Sub)):
            def f(n2, t2):
                n2.op = ast.Sub() if isinstance(n2.op, ast.Add) else ast.Add()
            yield ("binop +/- swap", ln, clone_with(i, f))
        if isinstance(n, ast.AugAssign) and isinstance(n.op, (ast.Add, ast.Sub)):
            def f(n2, t2):
                n2.op = ast.Sub() if isinstance(n2.op, ast.Add) else ast.Add()
            yield ("augassign +/- swap", ln, clone_with(i, f))
        # statement deletion
        if isinstance(n, (ast.Assign, ast.AugAssign, ast.Expr, ast.Continue, ast.Break, ast.Raise, ast.Return, ast.Delete, ast.Assert)) and id(n) in parents:
            p, fld, k = parents[id(n)]
            if k is not None and not (isinstance(n, ast.Expr) and isinstance(n.value, ast.Constant)):
                pi = idx[id(p)]
                def f(p2, t2, fld=fld, k=k):
                    getattr(p2, fld)[k] = ast.Pass()
                yield (f"delete {type(n).__name__}", ln, clone_with(pi, f))
        if isinstance(n, ast.Try):
            if n.finalbody:
                def f(n2, t2):
                    n2.finalbody = []
                    if not n2.handlers:
                        n2.handlers = [ast.ExceptHandler(type=ast.Name(id="_NeverRaised_", ctx=ast.Load()), name=None, body=[ast.Raise()])]
                yield ("drop finally", ln, clone_with(i, f))
            for k, h in enumerate(n.handlers):
                def f(n2, t2, k=k):
                    n2.handlers[k].type = ast.Name(id="_NeverRaised_", ctx=ast.Load())
                yield (f"disable handler {k} ({ast.unparse(h.type) if h.type else 'bare'})", ln, clone_with(i, f))
                if h.type is not None and ast.unparse(h.type) == "Exception":
                    def f(n2, t2, k=k):
                        n2.handlers[k].type = ast.Name(id="RuntimeError", ctx=ast.Load())
                    yield (f"narrow handler {k} Exception->RuntimeError", ln, clone_with(i, f))
        if isinstance(n, ast.Attribute) and n.attr in ("appendleft", "popleft", "append", "pop"):
            swap = {"appendleft": "append", "popleft": "pop", "append": "appendleft", "pop": "popleft"}
            if n.attr in ("appendleft", "popleft") or (isinstance(n.value, ast.Name) and n.value.id in ("to_unwrap", "to_elaborate")):
                def f(n2, t2):
                    n2.attr = swap[n2.attr]
                yield (f"{n.attr}->{swap[n.attr]}", ln, clone_with(i, f))
        if isinstance(n, ast.Call) and isinstance(n.func, ast.Name) and n.func.id == "reversed" and len(n.args) == 1:
            def f(n2, t2):
                n2.func = ast.Name(id="list", ctx=ast.Load())
            yield ("reversed->list", ln, clone_with(i, f))
        if isinstance(n, ast.UnaryOp) and isinstance(n.op, ast.Not) and id(n) in parents:
            p, fld, k = parents[id(n)]
            pi = idx[id(p)]
            def f(p2, t2, fld=fld, k=k):
                if k is None:
                    setattr(p2, fld, getattr(p2, fld).operand)
                else:
                    getattr(p2, fld)[k] = getattr(p2, fld)[k].operand
            yield ("drop not", ln, clone_with(pi, f))
        if isinstance(n, ast.keyword) and n.arg in ("hide", "prune", "for_task", "is_async", "is_exiting", "with_contexts", "recurse_child_tasks") and isinstance(n.value, ast.Name):
            pass


PRELUDE = "class _NeverRaised_(BaseException):\n    pass\n"


def run_one(job):
    fname, desc, ln, src, n = job
    d = tempfile.mkdtemp(prefix="m", dir="/dev/shm/mut/work")
    try:
        shutil.copytree(BASE, d, dirs_exist_ok=True)
        with open(os.path.join(d, "stackscope", fname), "w") as f:
            f.write(src)
        try:
            r = subprocess.run(["/venv/bin/python", "-m", "pytest", "-q", "-x", "-p", "no:cacheprovider", "--timeout=60", "-W", "ignore"],
                               cwd=d, capture_output=True, text=True, timeout=180)
            out = r.stdout[-400:]
            rc = r.returncode
        except subprocess.TimeoutExpired:
            rc, out = 124, "timeout"
        return dict(file=fname, desc=desc, line=ln, rc=rc, tail=out if rc == 0 else out[-200:], n=n)
    finally:
        shutil.rmtree(d, ignore_errors=True)


def main():
    os.makedirs("/dev/shm/mut/work", exist_ok=True)
    jobs = []
    for fname in FILES:
        src = open(os.path.join(BASE, "stackscope", fname)).read()
        tree = ast.parse(src)
        base_unparsed = ast.unparse(tree)
        seen = {base_unparsed}
        for desc, ln, t2 in mutants(tree):
            ast.fix_missing_locations(t2)
            try:
                s2 = ast.unparse(t2)
                compile(s2, fname, "exec")
            except Exception as e:
                continue
            if s2 in seen:
                continue
            seen.add(s2)
            # keep future import first
            if s2.startswith("from __future__"):
                first, rest = s2.split("\n", 1)
                s2 = first + "\n" + PRELUDE + rest
            else:
                s2 = PRELUDE + s2
            jobs.append((fname, desc, ln, s2, len(jobs)))
    # sanity: baseline unparsed
    print("jobs", len(jobs), flush=True)
    res = []
    with cf.ProcessPoolExecutor(16) as ex:
        for k, r in enumerate(ex.map(run_one, jobs, chunksize=4)):
            res.append(r)
            if k % 100 == 0:
                print(k, flush=True)
    surv = [r for r in res if r["rc"] == 0]
    json.dump(dict(total=len(res), survivors=surv), open("/dev/shm/mut/survivors.json", "w"), indent=1)
    print("total", len(res), "survivors", len(surv))


if __name__ == "__main__":
    main()
